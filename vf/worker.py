"""Worker process: boots the adapter, runs a batch of case indices for one property, streams JSONL
records (`start` marker before each case so a dying worker identifies the case in flight)."""
from __future__ import annotations

import json
import os
import random
import shutil
import signal
import sys
import time
import traceback
from pathlib import Path

ROOT = Path(__file__).resolve().parent.parent
if str(ROOT) not in sys.path:
    sys.path.insert(0, str(ROOT))
# third-party contract libs: appended (never shadow /venv's own packages)
sys.path.append(str(ROOT / ".deps"))


class CaseTimeout(Exception):
    pass


TIMED_OUT = False


def _alarm(signum, frame):
    """Per-case timer (CPU-time ITIMER_PROF, plus a 10x wall-clock alarm for hung subprocesses).
    Property code has broad `except BaseException` handlers (pyo3 panics), which may swallow the
    exception raised here and classify it as a compiler failure.  So the firing is also latched:
    a case during which a timer fired is reported `inconclusive`, whatever run_case returned —
    a deadline on a loaded machine is never a verdict.  The timer re-arms so a swallowed timeout
    keeps interrupting until the case returns."""
    global TIMED_OUT
    TIMED_OUT = True
    signal.setitimer(signal.ITIMER_PROF, 20)
    signal.alarm(60)
    raise CaseTimeout()


def _arm(cpu_s: int) -> None:
    signal.setitimer(signal.ITIMER_PROF, cpu_s)
    signal.alarm(cpu_s * 10)


def _disarm() -> None:
    signal.setitimer(signal.ITIMER_PROF, 0)
    signal.alarm(0)


def case_rng(pid: str, seed: int, idx: int) -> random.Random:
    return random.Random(f"{pid}:{seed}:{idx}")


def main() -> int:
    if sys.argv[1] == "--replay":
        return replay(sys.argv[2])
    job = json.loads(Path(sys.argv[1]).read_text())
    out = open(job["out"], "a", buffering=1)

    def emit(obj) -> None:
        out.write(json.dumps(obj, default=str) + "\n")
        out.flush()

    try:
        import importlib

        mod = importlib.import_module(f"vf.props.{job['prop'].lower()}")
        needs_boot = getattr(mod, "NEEDS_GUPPY", True)
        ctx = None
        if needs_boot:
            from vf import ctx as ctxmod

            ctx = ctxmod.Ctx(Path(job["workdir"]))
        if hasattr(mod, "worker_init"):
            mod.worker_init(ctx, job)
    except BaseException as e:
        emit({"ev": "fatal", "msg": f"worker init: {type(e).__name__}: {e}\n"
              + traceback.format_exc()[-2000:]})
        return 3

    signal.signal(signal.SIGALRM, _alarm)
    signal.signal(signal.SIGPROF, _alarm)
    global TIMED_OUT
    case_timeout = int(getattr(mod, "CASE_TIMEOUT_S", 240))
    parent = os.getppid()
    for idx in job["indices"]:
        if os.getppid() != parent:
            return 4  # the orchestrating check process is gone: do not linger as an orphan
        emit({"ev": "start", "idx": idx})
        rng = case_rng(job["prop"], job["seed"], idx)
        t0 = time.time()
        TIMED_OUT = False
        _arm(case_timeout)
        try:
            rec = mod.run_case(ctx, rng, idx, job["params"], job["tier"])
        except CaseTimeout:
            rec = {"status": "inconclusive", "fp": None, "detail": f"case timeout {case_timeout}s"}
        except BaseException as e:
            if isinstance(e, (KeyboardInterrupt, SystemExit)):
                raise
            if type(e).__name__ == "InvalidHugr":
                rec = {"status": "violated", "fp": "invalid-hugr",
                       "mech": f"{job['prop']}:compiled-program-is-invalid-hugr",
                       "witness": {"validator": str(e)[:1500], "tb": traceback.format_exc()[-1500:],
                                   "note": "re-run the check with the same seed; case index in the replay file"}}
                rec["t"] = round(time.time() - t0, 3)
                emit({"ev": "rec", "idx": idx, "rec": rec})
                _disarm()
                if ctx is not None:
                    try:
                        ctx.unload_all()
                    except Exception:
                        pass
                continue
            rec = {"status": "harness_error", "fp": None,
                   "detail": f"{type(e).__name__}: {e}", "tb": traceback.format_exc()[-3000:]}
        finally:
            _disarm()
        if TIMED_OUT:
            rec = {"status": "inconclusive", "fp": None, "counters": {"case_timeouts": 1},
                   "detail": f"case timer fired ({case_timeout}s CPU / {case_timeout * 10}s wall); "
                             f"record discarded: {str(rec.get('status'))}"}
            TIMED_OUT = False
        rec["t"] = round(time.time() - t0, 3)
        emit({"ev": "rec", "idx": idx, "rec": rec})
        if ctx is not None:
            try:
                ctx.unload_all()
            except Exception:
                pass
    done = {"ev": "done"}
    if hasattr(mod, "worker_done"):
        done.update(mod.worker_done(ctx) or {})
    emit(done)
    if ctx is not None:
        shutil.rmtree(job["workdir"], ignore_errors=True)
    return 0


def replay(path: str) -> int:
    import importlib

    data = json.loads(Path(path).read_text())
    pid = data["property"]
    mod = importlib.import_module(f"vf.props.{pid.lower()}")
    ctx = None
    wd = ROOT / ".work" / f"replay-{os.getpid()}"
    if getattr(mod, "NEEDS_GUPPY", True):
        from vf import ctx as ctxmod

        ctx = ctxmod.Ctx(wd)
    try:
        if hasattr(mod, "worker_init"):
            mod.worker_init(ctx, {"params": {}, "tier": data.get("tier", "quick"),
                                  "seed": data.get("seed", 0)})
        rec = mod.replay(ctx, data["witness"])
    finally:
        shutil.rmtree(wd, ignore_errors=True)
    print(json.dumps(rec, indent=1, default=str)[:6000])
    if rec["status"] == "violated":
        print(f"VIOLATION property={pid} replay={path}")
        return 1
    print(f"replay: {rec['status']}")
    return 0


if __name__ == "__main__":
    sys.exit(main())
