"""Regenerates MANIFEST.json from the property modules present under vf/props (run after adding a
check): `python -m vf.mkmanifest`."""
from __future__ import annotations

import importlib
import json
from pathlib import Path

ROOT = Path(__file__).resolve().parent.parent


def main() -> None:
    props = [json.loads(l) for l in (ROOT / "properties.jsonl").read_text().splitlines() if l.strip()]
    checks = []
    na = []
    for p in props:
        pid = p["id"]
        f = ROOT / "vf" / "props" / f"{pid.lower()}.py"
        if not f.exists():
            na.append({"property_id": pid, "reason": "check not built yet (planned in DESIGN.md §3)"})
            continue
        m = importlib.import_module(f"vf.props.{pid.lower()}")
        if getattr(m, "NOT_APPLICABLE", None):
            na.append({"property_id": pid, "reason": m.NOT_APPLICABLE})
            continue
        checks.append({
            "property_id": pid,
            "quick_cmd": f"./check {pid} --tier quick",
            "thorough_cmd": f"./check {pid} --tier thorough",
            "evidence_file": f"evidence/{pid}.json",
            "replay_cmd_template": f"./check {pid} --replay {{path}}",
            "engine": "vf",
            "level_claimed": {
                "category": getattr(m, "LEVEL", "exploration"),
                "text": m.LEVEL_TEXT,
                "design_ref": f"DESIGN.md §3 {pid}",
            },
            "level_note": m.LEVEL_NOTE,
            "technique": m.TECHNIQUE,
        })
    manifest = {
        "version": 1,
        "setup_cmd": "/venv/bin/pip install -q --no-index --find-links /opt/veriftools/wheels "
                     "--target /verif/.deps icontract deal",
        "hooks": {
            "guard": "CQCL_GUPPYLANG_VERIF",
            "enable": "checks set CQCL_GUPPYLANG_VERIF=1 in worker processes; all monitors attach "
                      "from the harness (contracts, namespace injection, sys.monitoring); /repo "
                      "contains no guarded code",
            "baseline_off_cmd": "cd /repo && /venv/bin/python -m pytest -ra -q -p no:cacheprovider "
                                "--timeout=900 --continue-on-collection-errors",
            "source_commits": [],
            "add_only": True,
        },
        "engines": [{
            "name": "vf",
            "path": "vf/",
            "serves_properties": [c["property_id"] for c in checks],
            "kind_free_text": "runtime monitoring: generated workloads executed on /repo's real "
                              "compiler + the real selene emulator, judged by reference-model "
                              "oracles, contracts on hooked functions, schedule and fault injection",
        }],
        "checks": checks,
        "not_applicable": na,
        "notes": "Every check runs /repo's current working tree (sys.path injection, nothing "
                 "installed or copied). `./check selftest` calibrates the dependency adapter by "
                 "running /repo's own tests against /repo's sources. Exit 2 = inconclusive "
                 "(monitor not reached); never expected on the unchanged tree.",
    }
    (ROOT / "MANIFEST.json").write_text(json.dumps(manifest, indent=1) + "\n")
    print(f"{len(checks)} checks, {len(na)} not_applicable")


if __name__ == "__main__":
    main()
