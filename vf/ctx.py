"""Worker-side helpers: load generated modules from real files, check/compile/validate/emulate
/repo's real code, classify exceptions.  Everything here runs inside a worker process after
`adapter.boot()`."""
from __future__ import annotations

import hashlib
import importlib.util
import os
import shutil
import sys
import tempfile
import traceback
from dataclasses import dataclass, field
from pathlib import Path
from typing import Any

from vf.compat import adapter

adapter.boot()

from vf.compat import execsub, lower  # noqa: E402

REPO_PREFIXES = tuple(p + "/" for p in adapter.REPO_PATHS)
VERIF_ROOT = Path(__file__).resolve().parent.parent


class HarnessError(Exception):
    pass


class InvalidHugr(Exception):
    """The compiler accepted the program but its output does not validate (so it cannot be built
    for emulation).  That is the compiler's failure, not the harness's: every emulating check
    reports it as a violation (`<ID>:compiled-program-is-invalid-hugr`)."""


def guppy_error_types() -> tuple[type, ...]:
    from guppylang_internals.error import GuppyError

    return (GuppyError,)


def is_guppy_error(e: BaseException) -> bool:
    from guppylang_internals.error import GuppyComptimeError, GuppyError

    return isinstance(e, (GuppyError, GuppyComptimeError))


def innermost_repo_frame(e: BaseException) -> str:
    """Mechanism key for a non-Guppy exception: ExcType@function-qualname of the innermost frame
    that lies in /repo's sources."""
    tb = e.__traceback__
    best = None
    while tb is not None:
        code = tb.tb_frame.f_code
        fn = code.co_filename
        if fn.startswith(REPO_PREFIXES):
            best = getattr(code, "co_qualname", code.co_name)
        tb = tb.tb_next
    return f"{type(e).__name__}@{best or '?'}"


def raised_in_harness(e: BaseException) -> bool:
    """True if the innermost frame is adapter/lowering code (=> harness_error, never a verdict)."""
    tb = e.__traceback__
    last = None
    while tb is not None:
        last = tb.tb_frame.f_code.co_filename
        tb = tb.tb_next
    return bool(last) and "/vf/compat/" in last


_counter = 0


@dataclass
class Loaded:
    name: str
    path: Path
    module: Any

    def __getattr__(self, k: str) -> Any:
        return getattr(self.module, k)


class Ctx:
    """Per-worker context. `workdir` holds generated .py files and selene build dirs."""

    def __init__(self, workdir: Path) -> None:
        self.workdir = workdir
        self.workdir.mkdir(parents=True, exist_ok=True)
        self.tmp = self.workdir / "tmp"
        self.tmp.mkdir(exist_ok=True)
        os.environ["TMPDIR"] = str(self.tmp)
        tempfile.tempdir = str(self.tmp)
        self._loaded: list[Loaded] = []

    # -- module loading ---------------------------------------------------------------------
    def load(self, text: str, stem: str = "case", fixed: str | None = None) -> Loaded:
        """Write `text` to a real file and import it (guppy needs inspect.getsourcelines).
        `fixed`: reuse one file path / module name for every such load of this worker — the file is
        rewritten and re-imported, as when a user edits and reloads a module in one session."""
        global _counter
        _counter += 1
        name = f"vfcase_{os.getpid()}_{_counter}_{stem}" if fixed is None else f"vfcase_{os.getpid()}_{fixed}"
        path = self.workdir / f"{name}.py"
        if fixed is not None:
            import linecache

            sys.modules.pop(name, None)
            linecache.checkcache(str(path))
        path.write_text(text)
        spec = importlib.util.spec_from_file_location(name, path)
        assert spec and spec.loader
        mod = importlib.util.module_from_spec(spec)
        sys.modules[name] = mod
        try:
            spec.loader.exec_module(mod)
        except BaseException:
            sys.modules.pop(name, None)
            path.unlink(missing_ok=True)
            raise
        ld = Loaded(name, path, mod)
        self._loaded.append(ld)
        return ld

    def unload_all(self) -> None:
        import linecache

        for ld in self._loaded:
            sys.modules.pop(ld.name, None)
            ld.path.unlink(missing_ok=True)
        self._loaded.clear()
        linecache.clearcache()
        for p in self.tmp.iterdir():
            if p.is_dir():
                shutil.rmtree(p, ignore_errors=True)
            else:
                p.unlink(missing_ok=True)

    def reset_engine(self) -> None:
        from guppylang_internals.engine import ENGINE

        ENGINE.reset()

    # -- compile / validate -----------------------------------------------------------------
    def compile(self, defn: Any, entry: bool = True) -> Any:
        return defn.compile() if entry else defn.compile_function()

    def validate_both(self, pkg: Any) -> tuple[str | None, str | None]:
        """(V1 error on raw output, V2 error on lowered output) — None means valid."""
        try:
            raw = pkg.to_bytes()
        except Exception as e:  # e.g. hugr's IncompleteOp: the compiler left a node unfinished
            return f"package cannot be serialised: {type(e).__name__}: {e}", None
        e1 = execsub.validate_raw(raw)
        try:
            low = lower.lower_package(pkg)
        except lower.LoweringError as e:
            raise HarnessError(f"lowering: {e}") from e
        e2 = execsub.validate_lowered(low)
        return e1, e2

    # -- emulate ----------------------------------------------------------------------------
    def emulate(
        self,
        pkg: Any,
        n_qubits: int = 0,
        seed: int = 0,
        shots: int = 1,
        sim: str = "auto",
        want_states: bool = False,
    ) -> "EmuOut":
        from guppylang.emulator import EmulatorInstance
        from guppylang.emulator.exceptions import EmulatorError

        try:
            low = lower.lower_package(pkg)
        except lower.LoweringError as e:
            raise HarnessError(f"lowering: {e}") from e
        bdir = Path(tempfile.mkdtemp(prefix="sel", dir=self.tmp))
        try:
            try:
                inst = execsub.build_instance(low, build_dir=bdir)
            except BaseException as e:  # pyo3 PanicException derives from BaseException
                if isinstance(e, (KeyboardInterrupt, SystemExit)) or type(e).__name__ == "CaseTimeout":
                    raise
                try:
                    e1, e2 = self.validate_both(pkg)
                except Exception:
                    e1 = e2 = None
                if e1 or e2:
                    raise InvalidHugr((e1 or e2)[:1500]) from e
                raise HarnessError(f"selene build: {type(e).__name__}: {str(e)[:2000]}") from e
            em = EmulatorInstance(_instance=inst, _n_qubits=n_qubits).with_shots(shots)
            if sim == "auto":
                sim = "statevector" if n_qubits else "coinflip"
            em = {"statevector": em.statevector_sim, "coinflip": em.coinflip_sim,
                  "stabilizer": em.stabilizer_sim}[sim]()
            em = em.with_seed(seed)
            out = EmuOut()
            try:
                res = em.run()
                out.shots = [list(s.entries) for s in res.results]
                if want_states:
                    out.states = [
                        [(t, pv) for t, pv in shot] for shot in res.partial_states()
                    ]
            except EmulatorError as e:
                out.shots = [list(s.entries) for s in e.completed_shots.results]
                out.partial = list(e.failing_shot.entries)
                out.panic = str(e.underlying_exception)
            return out
        finally:
            shutil.rmtree(bdir, ignore_errors=True)

    # -- diagnostics ------------------------------------------------------------------------
    def render(self, err: BaseException) -> str:
        from guppylang_internals.diagnostic import DiagnosticsRenderer
        from guppylang_internals.engine import DEF_STORE

        r = DiagnosticsRenderer(DEF_STORE.sources)
        r.render_diagnostic(err.error)  # type: ignore[attr-defined]
        return "\n".join(r.buffer)


@dataclass
class EmuOut:
    shots: list[list[tuple[str, Any]]] = field(default_factory=list)
    partial: list[tuple[str, Any]] | None = None
    panic: str | None = None
    states: list[Any] | None = None

    def stream(self) -> list[tuple[str, Any]]:
        """Result stream of a single-shot run (panicking shot's partial results if it failed)."""
        if self.panic is not None:
            return list(self.partial or [])
        return list(self.shots[0]) if self.shots else []


def sha(b: bytes | str) -> str:
    if isinstance(b, str):
        b = b.encode()
    return hashlib.sha256(b).hexdigest()


def short_tb(e: BaseException, n: int = 6) -> str:
    return "".join(traceback.format_exception(type(e), e, e.__traceback__)[-n:])
