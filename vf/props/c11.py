"""C11 — Compiling a definition does not depend on session history.

A pool of definitions (plain, generic, struct methods, nested recursive closures with captures,
comptime, overloaded, modifier block, failing at check, failing at compile) lives in one module.
Random histories of check / compile / emulate calls — some with an exception injected in the middle
of the compiler (sys.monitoring failpoint in guppylang_internals/compiler/*) — run in one
interpreter.  Oracle: every fault-free compile(d) in a history yields the same canonicalised HUGR
(generated names renumbered in order of appearance) or the same rendered diagnostic as compile(d)
performed as the very first compiler action of a fresh process (fork taken right after import)."""
from __future__ import annotations

import hashlib
import json
import os
import re
import sys

LEVEL = "exploration"
LEVEL_TEXT = ("History checking in one interpreter session against per-definition baselines taken in fresh "
              "forked processes: random operation sequences of length 10-40 incl. repeated compiles, "
              "failing definitions and injected mid-compile failures; comparison of canonicalised HUGR "
              "text / rendered diagnostics.")
LEVEL_NOTE = ("Trusted: the canonicalisation (DefId numbers, %tmp names, generated symbol numbers and "
              "numeric title suffixes renumbered by first appearance); a forked child right after module "
              "import is a session with empty history.")
TECHNIQUE = "history checker with fault injection (sys.monitoring failpoints in the compiler) against fresh-process baselines"
RULE = ("pool of 34 definitions (incl. three that are fine themselves but depend on failing ones); check "
        "outcomes are compared with fresh-process baselines as well, half of the checks are repeated "
        "immediately; histories of 10-40 ops over {check, compile, emulate} x definition, 20% of "
        "compile ops carry a failpoint at a random line event inside compiler/*; distinct = distinct "
        "(op, definition) sequences; non-trivial = history contains a repeated definition or an injected "
        "failure before a compared compile")
FLOORS = {"compiles_compared": 150, "checks_compared": 40, "injections_fired": 10, "definitions_covered": 15}

POOL = '''from typing import Generic
from collections.abc import Callable
from guppylang import guppy
from guppylang.std.builtins import result, array, owned, comptime, nat
from guppylang.std.quantum import qubit, h, cx, measure, discard
dagger = object()
control = object()

T = guppy.type_var("T")
n = guppy.nat_var("n")

@guppy.struct
class V:
    x: int
    y: int

    @guppy
    def norm(self: "V") -> int:
        return self.x * self.x + self.y * self.y

@guppy.struct
class GBox(Generic[T]):
    item: T

    @guppy
    def get(self: "GBox[T]") -> T:
        return self.item

@guppy
def f_add(a: int, b: int) -> int:
    return a + b

@guppy
def f_loop(k: int) -> int:
    s = 0
    i = 0
    while i < k:
        if i % 2 == 0:
            s += i
        i += 1
    return s

@guppy
def f_arr(xs: array[int, 3]) -> int:
    xs[0] = f_add(xs[1], xs[2])
    return xs[0]

@guppy
def f_calls(a: int) -> int:
    return f_loop(a) + f_add(a, 1) + V(a, 2).norm()

@guppy
def g_id(x: T) -> T:
    return x

@guppy
def g_len(xs: array[T, n]) -> int:
    return len(xs)

@guppy
def g_use(a: int) -> int:
    return g_id(a) + g_len(array(1, 2, 3)) + GBox(a).get()

@guppy
def n_rec(k: int) -> int:
    base = k + 1
    def fact(m: int) -> int:
        if m <= 1:
            return base
        return m * fact(m - 1)
    return fact(k)

@guppy
def n_rec0(k: int) -> int:
    def fib(m: int) -> int:
        if m < 2:
            return m
        return fib(m - 1) + fib(m - 2)
    return fib(k)

@guppy
def refers_fib(a: int) -> int:
    return fib(a)

@guppy
def n_rec_twice(k: int) -> int:
    def down(m: int) -> int:
        if m <= 0:
            return 0
        return 1 + down(m - 1)
    def up(m: int) -> int:
        if m >= 5:
            return down(m)
        return up(m + 1)
    return up(k) + n_rec0(3)

@guppy
def t_many(a: int, b: int, c: bool, e: bool) -> int:
    x = (a if c else b) + (b if e else a) + (a if e else 3) + (7 if c and e else b)
    return x

@guppy
def n_plain(k: int) -> int:
    def double(m: int) -> int:
        return m * 2
    return double(double(k))

@guppy.comptime
def c_sum(a: int, b: int) -> int:
    t = a
    for _ in range(3):
        t = t + b
    return t

@guppy.comptime
def c_bad(a: int) -> int:
    raise ValueError("comptime body failed")

@guppy
def uses_comptime(a: int) -> int:
    return c_sum(a, 2)

@guppy
def ov_a(x: int) -> int:
    return x + 1

@guppy
def ov_b(x: float) -> int:
    return 2

@guppy.overload(ov_a, ov_b)
def ov(*args): ...

@guppy
def uses_ov(a: int) -> int:
    return ov(a) + ov(1.5)

@guppy
def q_bell() -> bool:
    a = qubit()
    b = qubit()
    h(a)
    cx(a, b)
    discard(b)
    return measure(a)

@guppy
def q_mod(q: qubit, c: qubit) -> None:
    with control(c):
        h(q)

@guppy
def main_ok() -> None:
    result("v", f_calls(4) + g_use(2) + n_plain(3))

@guppy
def bad_check(a: int) -> int:
    return a + 1.5

@guppy
def bad_undefined(c: bool) -> int:
    if c:
        z = 1
    return z

@guppy
def bad_linear() -> None:
    q = qubit()

@guppy
def bad_generic_entry(x: int @comptime) -> int:
    return x

@guppy.struct
class BadS:
    x: int
    y: "NoSuchType"

@guppy
def uses_bads(s: BadS) -> int:
    return s.x

@guppy
def builds_bads(a: int) -> int:
    t = BadS(a, a)
    return t.x

@guppy.struct
class GoodS:
    v: V
    n: int

@guppy
def uses_goods(s: GoodS) -> int:
    return s.v.norm() + s.n

@guppy
def dep_bad(a: int) -> int:
    return bad_check(a) + 1

@guppy
def dep_bad2(c: bool) -> int:
    return f_add(1, 2) + dep_bad(3) + bad_undefined(c)

@guppy
def dep_bad_comptime(a: int) -> int:
    return c_bad(a)
'''
DEFS = ["V", "f_add", "f_loop", "f_arr", "f_calls", "g_id", "g_len", "g_use", "n_rec", "n_plain", "c_sum",
        "c_bad", "uses_comptime", "uses_ov", "q_bell", "q_mod", "main_ok", "bad_check", "bad_undefined",
        "bad_linear", "bad_generic_entry", "ov_a", "dep_bad", "dep_bad2", "dep_bad_comptime",
        "n_rec0", "n_rec_twice", "refers_fib", "t_many", "BadS", "uses_bads", "builds_bads", "GoodS", "uses_goods"]
ENTRY_DEFS = {"main_ok"}
COMPILER_SUFFIX = "guppylang_internals/compiler/"


def plan(tier, seed):
    n = 24 if tier == "quick" else 400
    return {"n_cases": n, "floors": {"evaluations": n // 2}}


CASE_TIMEOUT_S = 600


class InjectedFault(Exception):
    pass


class InjectedInterrupt(BaseException):
    """Like KeyboardInterrupt: not an `Exception`.  A user pressing Ctrl-C during a long compile is a
    failed compile too, and save/restore code written as `except Exception:` misses it."""


def canon(text: str) -> str:
    """Renumber generated names by order of first appearance."""
    patterns = [
        (r"DefId\(id=(\d+)\)", "DefId(id=#{})"),
        (r"%tmp(\d+)", "%tmp#{}"),
        (r"(?<![\w.%@])_(\d+)(?![\w.])", "_#{}"),
        (r"\.(\d+)(?=\\?\")", ".#{}"),
    ]
    for pat, repl in patterns:
        seen: dict[str, int] = {}

        def sub(m, seen=seen, repl=repl):
            k = m.group(1)
            if k not in seen:
                seen[k] = len(seen)
            return repl.format(seen[k])

        text = re.sub(pat, sub, text)
    return text


def outcome_of(ctx, d, op):
    """('ok', canonical hash) | ('err', rendered) | ('exc', type)"""
    from vf import ctx as C

    try:
        if op == "check":
            d.check()
            return ("checked", "")
        pkg = d.compile() if op == "compile_entry" else d.compile_function()
        txt = canon(str(pkg.to_model()))
        return ("ok", hashlib.sha256(txt.encode()).hexdigest())
    except (InjectedFault, InjectedInterrupt):
        return ("injected", "")
    except BaseException as e:
        if C.raised_in_harness(e):
            raise
        if C.is_guppy_error(e) and hasattr(e, "error"):
            try:
                return ("err", ctx.render(e))
            except BaseException as r:
                return ("render-crash", C.innermost_repo_frame(r))
        if C.is_guppy_error(e):
            return ("err", str(e))
        return ("exc", type(e).__name__ + ":" + str(e)[:80])


_BASE = {}


def baselines(ctx, ld):
    """Per definition: compile as the first compiler action of a forked child."""
    if _BASE:
        return _BASE
    for name in DEFS:
        _BASE[name] = {}
        for op in ("check", "compile"):  # one fresh fork per (definition, action)
            r, w = os.pipe()
            pid = os.fork()
            if pid == 0:
                try:
                    os.close(r)
                    d = getattr(ld.module, name)
                    os.write(w, json.dumps(outcome_of(ctx, d, op)).encode())
                finally:
                    os._exit(0)
            os.close(w)
            data = b""
            while True:
                chunk = os.read(r, 65536)
                if not chunk:
                    break
                data += chunk
            os.close(r)
            os.waitpid(pid, 0)
            _BASE[name][op] = json.loads(data.decode()) if data else ["child-died", ""]
    return _BASE


class FailPoints:
    def __init__(self):
        self.mon = sys.monitoring
        self.tool = 4
        self.armed_at = None
        self.count = 0
        self.fired = False
        self.site = None
        try:
            self.mon.use_tool_id(self.tool, "vf-c11-failpoints")
        except ValueError:
            pass
        self.mon.register_callback(self.tool, self.mon.events.LINE, self.on_line)

    def on_line(self, code, line):
        if COMPILER_SUFFIX not in code.co_filename:
            return self.mon.DISABLE
        # Frames of generator-based context managers (track_hugr_side_effects, set_monomorphized_args,
        # _new_dfcontainer, ...) are not failpoints: between their set-up statement and `try:` or
        # inside their `finally:` no real operation can raise; injecting there manufactures leaked
        # save/restore state the program cannot reach (seen: a fault on the `try:` line right after
        # `Hugr.add_node = ...` left the monkeypatch installed).  Everything they call still is.
        if code.co_flags & 0x20:  # CO_GENERATOR
            return self.mon.DISABLE
        self.count += 1
        if self.armed_at is not None and self.count == self.armed_at:
            self.fired = True
            self.site = f"{code.co_filename.rsplit('/', 1)[-1]}:{code.co_name}:{line}"
            raise (InjectedInterrupt() if self.count % 3 == 0 else InjectedFault())
        return None

    def start(self, armed_at):
        self.armed_at = armed_at
        self.count = 0
        self.fired = False
        self.mon.restart_events()
        self.mon.set_events(self.tool, self.mon.events.LINE)

    def stop(self):
        self.mon.set_events(self.tool, 0)


FP = None
LD = None


def worker_init(ctx, job):
    global FP, LD
    from guppylang_internals.experimental import enable_experimental_features

    enable_experimental_features()
    FP = FailPoints()
    LD = ctx.load(POOL, "pool")
    ctx._loaded.remove(LD)  # keep for the worker's lifetime (one session!)


def run_case(ctx, rng, idx, params, tier):
    from guppylang_internals.tracing.state import tracing_active

    base = baselines(ctx, LD)
    hist = []
    viols = []
    counters = {"compiles_compared": 0, "injections_fired": 0, "checks_run": 0, "emulations": 0,
                "obs_tracing_active_left_on": 0, "obs_excepthook_replaced": 0}
    covered = set()
    nontrivial = False
    seen_defs = set()
    injected_before = False
    hook0 = sys.excepthook
    ns0 = set(vars(LD.module))
    ns_reported = False
    for step in range(rng.randint(10, 40)):
        if not ns_reported and set(vars(LD.module)) != ns0:
            ns_reported = True
            viols.append({"mech": "C11:module-namespace-changed-by-check-or-compile",
                          "witness": {"history": hist[:], "added": sorted(set(vars(LD.module)) - ns0),
                                      "removed": sorted(ns0 - set(vars(LD.module)))}})
            for k_ in set(vars(LD.module)) - ns0:
                delattr(LD.module, k_)
        if rng.random() < 0.08:
            # advance the session-wide temporary-variable counter to just below a power of ten, as
            # checking a suitable number of unrelated definitions would: names like %tmp9 / %tmp10
            # must not change how a definition is lowered
            align_tmp_counter(rng.choice([10, 100, 1000, 10000]) - rng.randint(1, 3))
            hist.append(("advance-tmp-counter",))
            counters["tmp_counter_alignments"] = counters.get("tmp_counter_alignments", 0) + 1
            continue
        name = rng.choice(DEFS)
        d = getattr(LD.module, name)
        op = rng.choice(["check", "compile", "compile", "compile", "emulate"])
        if op == "emulate":
            if name not in ENTRY_DEFS:
                op = "compile"
            else:
                try:
                    out = ctx.emulate(d.compile())
                    counters["emulations"] += 1
                    hist.append(("emulate", name))
                    if out.stream() != [("v", 46)]:
                        viols.append({"mech": "C11:emulation-result-changed",
                                      "witness": {"history": hist[:], "observed": out.stream()}})
                except Exception:
                    pass
                continue
        if op == "check":
            got = outcome_of(ctx, d, "check")
            counters["checks_run"] += 1
            hist.append(("check", name))
            exp = tuple(base[name]["check"])
            # a repeated check right after a failed one is the shortest history in which a stale
            # `checked` entry can show: do it half of the time
            again = None
            if rng.random() < 0.5:
                again = outcome_of(ctx, d, "check")
                hist.append(("check", name))
                counters["checks_run"] += 1
            for g in (got, again):
                if g is not None and tuple(g) != exp:
                    viols.append({"mech": f"C11:history-dependent-check-{exp[0]}-became-{g[0]}",
                                  "witness": {"definition": name, "history": hist[:], "baseline": list(exp)[:2],
                                              "observed": list(g)[:2]}})
                    break
            counters["checks_compared"] = counters.get("checks_compared", 0) + 1
            continue
        inject = rng.random() < 0.2
        if inject:
            # count events of a compile first (cheap), then arm within that range
            FP.start(None)
            try:
                outcome_of(ctx, d, "compile")
            finally:
                FP.stop()
            total = FP.count
            if total > 0:
                at = rng.randint(1, total)
                FP.start(at)
                try:
                    o = outcome_of(ctx, d, "compile")
                finally:
                    FP.stop()
                if FP.fired:
                    counters["injections_fired"] += 1
                    injected_before = True
                    hist.append(("compile+fault", name, at, FP.site))
                    continue
            hist.append(("compile", name))
            continue
        got = outcome_of(ctx, d, "compile")
        hist.append(("compile", name))
        counters["compiles_compared"] += 1
        covered.add(name)
        if name in seen_defs or injected_before:
            nontrivial = True
        seen_defs.add(name)
        exp = tuple(base[name]["compile"])
        if tuple(got) != exp:
            kind = "diagnostic" if got[0] == "err" and exp[0] == "err" else \
                ("hugr" if got[0] == "ok" and exp[0] == "ok" else f"{exp[0]}-became-{got[0]}")
            viols.append({"mech": f"C11:history-dependent-{kind}",
                          "witness": {"definition": name, "history": hist[:], "baseline": list(exp)[:2],
                                      "observed": list(got)[:2]}})
        if tracing_active():
            counters["obs_tracing_active_left_on"] += 1
            from guppylang_internals.tracing.state import reset_state

            reset_state()
    if sys.excepthook is not hook0:
        counters["obs_excepthook_replaced"] += 1
        sys.excepthook = hook0
    seen = set()
    uniq = [v for v in viols if not (v["mech"] + v["witness"].get("definition", "") in seen
                                     or seen.add(v["mech"] + v["witness"].get("definition", "")))]
    rec = {"status": "violated" if uniq else "held",
           "fp": hashlib.sha1(repr(hist).encode()).hexdigest()[:16] if nontrivial else None,
           "counters": counters, "sets": {"definitions_covered": sorted(covered)}}
    if uniq:
        rec["violations"] = uniq[:6]
    if idx < 2:
        rec["sample"] = {"history": hist[:12]}
    return rec


def align_tmp_counter(target: int) -> None:
    """Consume /repo's global temporary-name generator until the next name carries a number n with
    n % (10 ** len(str(target))) == target."""
    import re as _re

    from guppylang_internals.cfg import builder

    mod = 10 ** len(str(target))
    for _ in range(2 * mod):
        name = next(builder.tmp_vars)
        n = int(_re.search(r"(\d+)$", name).group(1))
        if (n + 1) % mod == target:
            return


def replay(ctx, w):
    return {"status": "held", "note": "history witness: re-run `./check C11 --seed <seed>`; history: "
            + repr(w.get("history"))[:1500]}
