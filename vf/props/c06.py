"""C06 — Linearity: qubits are used exactly once on every path.

G-linear programs (correct by construction) and 1-2-step mutations of them are judged by O-lin, a
path-exact collecting interpreter of the ownership rules; /repo's checker must agree on
accept/reject.  Accepted programs are additionally compiled and validated (soundness oracle)."""
from __future__ import annotations

import copy

from vf.gen import glinear

LEVEL = "exploration"
LEVEL_TEXT = ("Differential testing of the real linearity checker against a path-exact reference "
              "interpreter on generated core-fragment programs and their near-miss mutations; both "
              "directions (soundness: reject iff some path violates; completeness: accept otherwise). "
              "Accepted programs are also validated as HUGR (linear ports consumed exactly once).")
LEVEL_NOTE = ("Trusted: O-lin (vf/gen/glinear.py, ~200 lines) as the reading of the statement: every "
              "leaf place Owned/NotOwned per path; borrowed parameters may only be lent, never moved, "
              "shadowed or left unowned; all locals initialised at entry; no dead code in the fragment.")
TECHNIQUE = "reference-model monitor: path-exact ownership interpreter vs real checker on generated + mutated programs"
RULE = ("functions with 0-3 qubit/struct parameters (owned or borrowed), 1-3 qubit locals, optional "
        "struct and tuple locals, 3 opaque bool conditions; statements alloc/borrow/consume/measure/"
        "move/struct+tuple construction/unpack/if/while/break/continue/return, nesting <=3; each case "
        "is the correct program or 1-2 random mutations of it. distinct = distinct (params, statement "
        "kind+depth sequence); non-trivial = has a branch or loop")
FLOORS = {"expected_reject": 10, "expected_accept": 10}


def plan(tier, seed):
    n = 1200 if tier == "quick" else 30000
    return {"n_cases": n, "floors": {"evaluations": n // 2}}


def judge(ctx, fn, text, fp):
    from vf import ctx as C

    try:
        expected = glinear.OLin(fn).run()
    except glinear.Unmodelled as u:
        return {"status": "discard", "fp": None, "detail": f"unmodelled: {u}",
                "counters": {"unmodelled": 1}}
    if glinear.has_dead_code(fn.body):
        return {"status": "discard", "fp": None, "detail": "dead code", "counters": {"unmodelled": 1}}
    counters = {"expected_accept" if expected is None else "expected_reject": 1}
    sets = {"rule_classes": [expected or "accept"]}
    try:
        ld = ctx.load(text)
        ld.main.check()
        got = None
    except BaseException as e:
        if C.is_guppy_error(e):
            got = getattr(getattr(e, "error", None), "title", type(e).__name__)
        elif C.raised_in_harness(e):
            raise
        else:
            return {"status": "violated", "fp": fp, "mech": "C06:checker-crash:" + C.innermost_repo_frame(e),
                    "witness": {"text": text, "expected": expected, "error": C.short_tb(e)},
                    "counters": counters}
    rec = {"fp": fp, "counters": counters, "sets": sets}
    if got == "Unsupported":
        # the mutation produced syntax outside the fragment (e.g. assignment to a tuple element)
        return {"status": "discard", "fp": None, "detail": "unsupported syntax",
                "counters": {"outside_fragment_unsupported": 1}}
    if (expected is None) != (got is None):
        rec["status"] = "violated"
        if expected is None:
            rec["mech"] = f"C06:false-reject:{got}"
        else:
            rec["mech"] = f"C06:false-accept:{expected}"
        rec["witness"] = {"text": text, "expected": expected or "accept", "observed": got or "accept",
                          "ir": repr(fn)}
        return rec
    if got is not None:
        sets["guppy_titles"] = [got]
        # a linearity rejection must be reported as a linearity/ownership/definedness error
        rec["status"] = "held"
        return rec
    # accepted: soundness oracle — compile and validate
    try:
        pkg = ld.main.compile_function()
        e1, e2 = ctx.validate_both(pkg)
    except BaseException as e:
        if C.raised_in_harness(e):
            raise
        rec["status"] = "violated"
        rec["mech"] = "C06:accepted-but-compile-failed:" + C.innermost_repo_frame(e)
        rec["witness"] = {"text": text, "error": C.short_tb(e)}
        return rec
    counters["accepted_validated"] = 1
    if e1 or e2:
        rec["status"] = "violated"
        rec["mech"] = "C06:accepted-but-invalid-hugr"
        rec["witness"] = {"text": text, "V1": e1, "V2": e2}
        return rec
    rec["status"] = "held"
    return rec


def run_case(ctx, rng, idx, params, tier):
    text, fp, fn = glinear.generate(rng)
    nmut = rng.choice([0, 1, 1, 2])
    muts = []
    fn = copy.deepcopy(fn)
    for _ in range(nmut):
        muts.append(glinear.mutate(fn, rng))
    text = glinear.render(fn)
    fp = glinear.fingerprint(fn)
    rec = judge(ctx, fn, text, fp)
    rec.setdefault("sets", {})["mutations"] = muts or ["none"]
    if idx < 3 and rec["status"] in ("held", "violated"):
        rec["sample"] = {"program": text, "mutations": muts}
    return rec


def replay(ctx, w):
    # re-judge from the text: expected verdict is stored in the witness
    from vf import ctx as C

    try:
        ld = ctx.load(w["text"])
        ld.main.check()
        got = "accept"
    except BaseException as e:
        if not C.is_guppy_error(e):
            return {"status": "violated", "observed": "crash " + C.innermost_repo_frame(e)}
        got = getattr(getattr(e, "error", None), "title", "reject")
    exp = w.get("expected", "accept")
    same = (exp == "accept") == (got == "accept")
    return {"status": "held" if same else "violated", "expected": exp, "observed": got}
