"""C03 — Classical control and data flow behave as in Python.

Differential execution: G-prog programs run (a) on the real selene emulator after /repo compiles
them and (b) under CPython via O-py (same source text).  Verdict = exact equality of the ordered
result streams."""
from __future__ import annotations

from vf.gen import gprog, opy

LEVEL = "exploration"
LEVEL_TEXT = ("Random differential testing of /repo's whole pipeline (CFG builder, checker, HUGR "
              "lowering) on the real emulator against CPython executing the same source: held on N "
              "generated programs covering the listed constructs. No proof; reach comes from "
              "generator diversity (control-flow shape x liveness pattern x value distinctness).")
LEVEL_NOTE = ("Trusted: CPython as reference semantics, the O-py domain guard (cases leaving int64 / "
              "exact floats / positive divisors are discarded, not judged), adapter + bool lowering, "
              "installed selene/QIS compiler.")
TECHNIQUE = "differential execution against CPython on generated programs (reference-model monitor over result streams)"
RULE = ("G-prog classical profile (vf/gen/gprog.py): 1-3 functions, <=14 statements each, nesting <=3, "
        "if/elif/else, fuel-bounded while, for over range/arrays, break/continue/return, cond-exprs, "
        "walrus, (starred) unpacking, tuples, structs, arrays, calls, nested functions, dead code; "
        "main() calls roots with 2-3 literal argument tuples. distinct = distinct "
        "(depth,statement-kind) sequences; non-trivial = contains a branch or loop")
ASSUMPTIONS = ["programs whose Python run leaves int64, needs inexact float arithmetic, negative "
               "divisors or negative >> operands are discarded (C04 owns those operators)"]
FLOORS = {"programs_emulated": 10}


def plan(tier, seed):
    n = 160 if tier == "quick" else 4000
    return {"n_cases": n, "floors": {"evaluations": n // 3},
            "watchdog_s": 900 if tier == "quick" else 5400}


def classify(exp, got, panic):
    """Stable mechanism key for a stream mismatch."""
    if panic is not None:
        return "C03:unexpected-panic"
    if len(got) != len(exp):
        tags_e = [t for t, _ in exp]
        tags_g = [t for t, _ in got]
        if tags_g == tags_e[: len(tags_g)]:
            return "C03:stream-truncated"
        return "C03:different-events"
    for (te, ve), (tg, vg) in zip(exp, got):
        if te != tg:
            return "C03:event-order"
        if ve != vg:
            kind = type(ve).__name__
            return f"C03:value-mismatch:{kind}"
    return "C03:?"


def has_hoist_after_effect(text: str) -> bool:
    """True if some statement evaluates a call to a user function (which may report results) and
    *afterwards*, inside the same statement, a sub-expression that /repo hoists in front of the
    statement (conditional expression, and/or/not, chained comparison, walrus) and that itself
    contains such a call.  That is the shape of the known evaluation-order finding shared with C05."""
    import ast

    tree = ast.parse(text)
    user = {n.name for n in ast.walk(tree) if isinstance(n, ast.FunctionDef)}

    def is_hoisted(n):
        return isinstance(n, (ast.IfExp, ast.BoolOp, ast.NamedExpr)) or \
            (isinstance(n, ast.Compare) and len(n.ops) > 1) or \
            (isinstance(n, ast.UnaryOp) and isinstance(n.op, ast.Not))

    def calls_user(n):
        return any(isinstance(c, ast.Call) and isinstance(c.func, ast.Name) and c.func.id in user
                   for c in ast.walk(n))

    for stmt in ast.walk(tree):
        if not isinstance(stmt, (ast.Assign, ast.AugAssign, ast.AnnAssign, ast.Expr, ast.Return)):
            continue
        seen_effect = False
        found = False

        def walk(n):
            nonlocal seen_effect, found
            if is_hoisted(n) and seen_effect and calls_user(n):
                found = True
            if isinstance(n, ast.Call) and isinstance(n.func, ast.Name) and n.func.id in user:
                for a in n.args:
                    walk(a)
                seen_effect = True
                return
            for ch in ast.iter_child_nodes(n):
                walk(ch)

        walk(stmt)
        if found:
            return True
    return False


def judge_text(ctx, text, want_fp=None):
    try:
        exp, exp_panic = opy.run_source(text)
    except (opy.OutOfDomain, opy.StepLimit) as e:
        return {"status": "discard", "fp": None, "detail": f"oracle: {e}",
                "counters": {"discard_out_of_domain": 1}}
    if exp_panic is not None:
        return {"status": "discard", "fp": None, "detail": "python panicked"}
    from vf import ctx as C

    try:
        ld = ctx.load(text)
        pkg = ld.main.compile()
    except BaseException as e:
        if C.is_guppy_error(e):
            try:
                msg = ctx.render(e)[:600]
            except Exception:
                msg = repr(e)[:300]
            return {"status": "discard", "fp": None, "detail": "guppy rejected: " + msg,
                    "counters": {"guppy_rejected": 1},
                    "sets": {"reject_titles": [getattr(getattr(e, "error", None), "title", "?")]}}
        if C.raised_in_harness(e):
            raise
        # internal compiler crash on an accepted-by-construction program: C01/C02 own it
        return {"status": "discard", "fp": None, "detail": "compiler crash: " + C.innermost_repo_frame(e),
                "counters": {"compiler_crash": 1}}
    out = ctx.emulate(pkg)
    got = [(t, opy.norm_value(v)) for t, v in out.stream()]
    rec = {"fp": want_fp, "counters": {"programs_emulated": 1, "events_compared": len(exp)}}
    if got == exp and out.panic is None:
        rec["status"] = "held"
    else:
        rec["status"] = "violated"
        rec["mech"] = classify(exp, got, out.panic)
        if out.panic is None and sorted(map(repr, exp)) == sorted(map(repr, got)) and has_hoist_after_effect(text):
            # same events, different order, and the program has the known shape
            rec["mech"] = "C03:result-order:hoisted-subexpression-evaluated-before-earlier-operands"
        rec["witness"] = {"text": text, "expected": exp, "observed": got, "panic": out.panic}
    return rec


def run_case(ctx, rng, idx, params, tier):
    prog = gprog.generate(rng)
    text = prog.text()
    rec = judge_text(ctx, text, prog.fingerprint() if prog.nontrivial() else None)
    if rec["status"] in ("held", "violated"):
        rec["sets"] = {"stmt_kinds": sorted(set(prog.kinds()))}
        if idx < 3:
            rec["sample"] = {"program": text}
    return rec


def replay(ctx, w):
    return judge_text(ctx, w["text"], "replay")
