"""C14 — Copy/drop classification is structural and matches HUGR bounds.

(a) Random types (nesting <= 4) over base types, tuples, generic and plain structs, arrays,
options, lists, function types and bound variables of all four copy/drop bounds: /repo's
`copyable`/`droppable` must equal the structural rule, and the HUGR type's bound must be Copyable
exactly when the Guppy type is copyable.  (b) Programs that build affine values and abandon them
must contain one explicit `drop` per abandoned value and validate."""
from __future__ import annotations

from vf.gen import gtypes

LEVEL = "exploration"
LEVEL_TEXT = ("Random structural testing of the real type classes against an independent recursive "
              "definition of copyable/droppable, plus the HUGR-bound correspondence on the real "
              "to_hugr(); and program-level observation of explicit drops for abandoned affine values "
              "(count of tket.guppy.drop nodes in the compiled HUGR + validation).")
LEVEL_NOTE = ("Trusted: the structural rule transcribed from the statement (vf/gen/gtypes.copy_drop); "
              "hugr-py's Type.type_bound(); the HUGR validators for the drop programs.")
TECHNIQUE = "reference-model monitor over generated types + structural observation of drop nodes in compiled HUGR"
RULE = ("types of depth <=4 over int/nat/float/bool/None/str/qubit, tuples (0-3), array, Option, list, "
        "function types, structs P0/G1[T]/G2[L,n]/G3[A,U]/QS/AR with bound-respecting arguments, bound "
        "type variables with (copy,drop) in all 4 combinations; drop programs: k unused affine "
        "parameters/locals (arrays, options of arrays, structs with array fields). distinct = distinct "
        "type shapes; non-trivial = nested at least once")
FLOORS = {"types_checked": 500, "drop_programs": 5}


def plan(tier, seed):
    n = 1000 if tier == "quick" else 12000
    return {"n_cases": n, "floors": {"evaluations": n // 2}}


ENV = None


def worker_init(ctx, job):
    global ENV
    ENV = gtypes.TyEnv(ctx)


class _Ctx:
    """Minimal ToHugrContext for types with bound variables."""

    def type_var_to_hugr(self, var):
        import hugr.tys as ht

        # what CompilerContext.type_var_to_hugr does outside a monomorphised context
        return ht.Variable(var.idx, var.hugr_bound)

    def const_var_to_hugr(self, var):
        import hugr.tys as ht

        return ht.VariableArg(var.idx, ht.BoundedNatParam())


DROP_TEMPLATES = [
    ("array[int, 3]", "array(1, 2, 3)"),
    ("array[float, 2]", "array(1.5, 2.5)"),
    ("Option[array[int, 2]]", "some(array(1, 2))"),
    ("AR", "AR(array(1, 2))"),
    ("tuple[array[int, 2], int]", "(array(1, 2), 3)"),
    ("array[array[int, 2], 2]", "array(array(1, 2), array(3, 4))"),
]


def drop_program(rng):
    k_params = rng.randint(0, 3)
    k_locals = rng.randint(0, 3)
    if k_params + k_locals == 0:
        k_locals = 1
    ps = []
    body = []
    for i in range(k_params):
        ty, _ = rng.choice(DROP_TEMPLATES)
        ps.append(f"p{i}: {ty} @owned")
    for i in range(k_locals):
        _, ex = rng.choice(DROP_TEMPLATES)
        body.append(f"    l{i} = {ex}")
    used = rng.random() < 0.3 and k_locals
    if used:
        # one local is consumed by returning it: no drop for that one
        body.append("    return l0")
        ret = None
    text = (gtypes.STRUCT_MODULE + "from guppylang.std.builtins import owned\n"
            "from guppylang.std.option import some\n\n")
    if used:
        # find the type of l0
        ex0 = body[0].split(" = ")[1]
        ty0 = next(t for t, e in DROP_TEMPLATES if e == ex0)
        text += f"@guppy\ndef main({', '.join(ps)}) -> {ty0}:\n" + "\n".join(body) + "\n"
    else:
        text += f"@guppy\ndef main({', '.join(ps)}) -> None:\n" + "\n".join(body) + "\n    return\n"
    expected = k_params + k_locals - (1 if used else 0)
    return text, expected


def generic_drop_program(rng):
    """Generic functions ignoring (some of) their arguments, with type variables of different
    copy/drop bounds at the same parameter index, optionally behind comptime parameters (which move
    the type variables' indices under partial monomorphisation); all compiled in one module, called
    in random order.  One explicit drop is expected per ignored argument of an *affine* (droppable,
    not copyable) type variable or array, none for copyable ones.  -> (text, expected drop count)"""
    L = ["from guppylang import guppy", "from guppylang.std.builtins import owned, array, comptime, nat", "",
         'TCD = guppy.type_var("TCD", copyable=True, droppable=True)',
         'TD = guppy.type_var("TD", copyable=False, droppable=True)',
         'UCD = guppy.type_var("UCD", copyable=True, droppable=True)',
         'UD = guppy.type_var("UD", copyable=False, droppable=True)', ""]
    nf = rng.randint(2, 4)
    expected = 0
    calls = []
    for j in range(nf):
        k = rng.randint(1, 3)
        kinds = [rng.choice(["cd", "d"]) for _ in range(k)]
        tvs = []
        for i, kd in enumerate(kinds):
            tvs.append({"cd": ["TCD", "UCD"], "d": ["TD", "UD"]}[kd][i % 2] if i < 2 else {"cd": "TCD", "d": "TD"}[kd])
        ps = [f"p{i}: {tv}" + (" @owned" if kd == "d" else "") for i, (tv, kd) in enumerate(zip(tvs, kinds))]
        pre = []
        if rng.random() < 0.4:
            pos = rng.randint(0, len(ps))
            ps.insert(pos, "kc: int @comptime")
            pre.append(("kc", pos))
        used = rng.randrange(k) if rng.random() < 0.4 else None
        ret = tvs[used] if used is not None else "int"
        body = f"    return p{used}" if used is not None else "    return 1"
        L += ["@guppy", f"def ign{j}({', '.join(ps)}) -> {ret}:", body, ""]
        # within one function two parameters of the same type variable must get the same type
        conc = {}
        args = []
        for i, (tv, kd) in enumerate(zip(tvs, kinds)):
            if tv not in conc:
                conc[tv] = rng.choice(["7", "1.5", "True"]) if kd == "cd" else rng.choice(["array(1, 2)", "array(1.5, 2.5, 3.5)"])
            args.append(conc[tv])
            if kd == "d" and i != used:
                expected += 1
        for name_, pos in pre:
            args.insert(pos, str(rng.randint(0, 9)))
        calls.append((j, args, used is not None and kinds[used] == "d"))
    rng.shuffle(calls)
    L += ["@guppy", "def main() -> None:"]
    for j, args, returns_affine in calls:
        L.append(f"    r{j} = ign{j}({', '.join(args)})")
        if returns_affine:
            expected += 1  # the returned affine value is abandoned by main
    return "\n".join(L) + "\n", expected


def count_drops(pkg):
    n = 0
    for h in pkg.modules:
        for node in h:
            op = h[node].op
            name = getattr(op, "op_def", None)
            s = str(op)
            if "drop" in s.lower() and "guppy" in (getattr(getattr(op, "_op_def", None), "qualified_name", lambda: "")() or s).lower():
                n += 1
    return n


def count_drops_model(pkg):
    s = str(pkg.to_model())
    return s.count("tket.guppy.drop")


def run_case(ctx, rng, idx, params, tier):
    import hugr.tys as ht

    from vf import ctx as C

    ENV.refresh()
    viols = []
    counters = {"types_checked": 0, "hugr_bounds_checked": 0}
    shapes = set()
    classes = set()
    for _ in range(120):
        bv = [(i, c, d) for i, (c, d) in enumerate([(True, True), (False, True), (True, False), (False, False)])]
        g = gtypes.TGen(rng, bvars=bv, bcvars=1)
        t = g.ty(rng.randint(1, 4))
        try:
            ty = ENV.ty(t)
        except Exception as e:
            if C.raised_in_harness(e):
                raise
            viols.append({"mech": f"C14:type-construction-raised:{type(e).__name__}",
                          "witness": {"term": repr(t), "error": C.short_tb(e, 3)}})
            continue
        exp = gtypes.copy_drop(t)
        got = (ty.copyable, ty.droppable)
        counters["types_checked"] += 1
        shapes.add(repr(gtypes.shape(t)))
        classes.add(f"copy={exp[0]},drop={exp[1]}")
        if got != exp:
            viols.append({"mech": f"C14:classification:{t[0]}:expected-{exp}-got-{got}",
                          "witness": {"term": repr(t), "printed": str(ty), "expected": exp, "observed": got}})
            continue
        try:
            hb = ty.to_hugr(_Ctx()).type_bound()
        except Exception as e:
            if C.raised_in_harness(e):
                raise
            viols.append({"mech": f"C14:to_hugr-raised:{type(e).__name__}@{t[0]}",
                          "witness": {"term": repr(t), "printed": str(ty), "error": C.short_tb(e, 3)}})
            continue
        counters["hugr_bounds_checked"] += 1
        if (hb == ht.TypeBound.Copyable) != exp[0]:
            viols.append({"mech": f"C14:hugr-bound-mismatch:{t[0]}",
                          "witness": {"term": repr(t), "printed": str(ty), "copyable": exp[0],
                                      "hugr_bound": str(hb)}})
        if ty.hugr_bound != hb:
            viols.append({"mech": f"C14:hugr_bound-property-disagrees-with-to_hugr:{t[0]}",
                          "witness": {"term": repr(t), "printed": str(ty), "property": str(ty.hugr_bound),
                                      "to_hugr": str(hb)}})
    # drop insertion
    if idx % 2 == 0:
        if idx % 4 == 0:
            text, expected = drop_program(rng)
        else:
            text, expected = generic_drop_program(rng)
            counters["generic_drop_programs"] = 1
        try:
            ld = ctx.load(text, "drops")
            pkg = ld.main.compile_function() if "def ign0" not in text else ld.main.compile()
            n = count_drops_model(pkg)
            e1, e2 = ctx.validate_both(pkg)
            counters["drop_programs"] = 1
            counters["drop_nodes_observed"] = n
            if n != expected:
                viols.append({"mech": "C14:drop-count", "witness": {"text": text, "expected": expected,
                                                                    "observed": n}})
            if e1 or e2:
                viols.append({"mech": "C14:drop-program-invalid", "witness": {"text": text, "V1": e1, "V2": e2}})
        except BaseException as e:
            if C.raised_in_harness(e) or isinstance(e, C.HarnessError):
                raise
            viols.append({"mech": "C14:drop-program-failed:" + (
                "guppy-error" if C.is_guppy_error(e) else C.innermost_repo_frame(e)),
                "witness": {"text": text, "error": C.short_tb(e, 4)}})
        ENV.refresh()
    seen = set()
    uniq = [v for v in viols if not (v["mech"] in seen or seen.add(v["mech"]))]
    rec = {"status": "violated" if uniq else "held", "fp": f"case{idx}", "counters": counters,
           "sets": {"type_shapes": sorted(shapes)[:400], "classes": sorted(classes)}}
    if uniq:
        rec["violations"] = uniq[:20]
    if idx < 2:
        rec["sample"] = {"types": sorted(shapes)[:3]}
    return rec


def replay(ctx, w):
    import ast

    if "term" not in w:
        return {"status": "held", "note": "program witness: re-run the check"}
    t = ast.literal_eval(w["term"])
    ENV.refresh()
    ty = ENV.ty(t)
    exp = gtypes.copy_drop(t)
    got = (ty.copyable, ty.droppable)
    return {"status": "held" if got == exp else "violated", "expected": exp, "observed": got}
