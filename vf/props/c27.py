"""C27 — Stack and PriorityQueue follow their reference models.

Operation scripts (push/pop/peek/len; capacity 1-8; repeated priorities) compiled as straight-line
programs and run on the real emulator.  Oracle: a Python list (Stack) and a multiset with min
extraction (PriorityQueue); overflow / empty access must panic with earlier results intact."""
from __future__ import annotations

LEVEL = "exploration"
LEVEL_TEXT = ("History checking of generated operation sequences on the real std collections against "
              "executable sequential models: LIFO list; priority queue = popped/peeked priority is the "
              "model's minimum, the (priority, value) pair is in the model multiset, multiset and len "
              "preserved; panics exactly on overflow / empty access.")
LEVEL_NOTE = ("peek() is not executable under the installed toolchain (third-party rebase pass panics): "
              "peek scripts are compiled + HUGR-validated only, their values are NOT observed. Trusted: the two reference models (20 lines); values are unique ids so every popped entry "
              "identifies the push it came from; adapter + lowering + installed selene.")
TECHNIQUE = "history checker against executable sequential models (unique-id values) over emulator result streams"
RULE = ("half of the scripts: capacity 10-20, filled to 7-20 live entries, churned and drained completely; "
        "the other half: scripts of 4-24 ops, capacity 1-8, priorities from {0,1,2} or random in [-50,50], values = "
        "unique ids; ops push/pop/peek/len, optionally ending in overflow or empty pop/peek. distinct = "
        "(collection, capacity, op-kind sequence)")
FLOORS = {"scripts_emulated": 20, "ops_checked": 200, "expected_panics": 3}

HDR = ("from guppylang import guppy\nfrom guppylang.std.builtins import result\n"
       "from guppylang.std.collections import Stack, empty_stack, PriorityQueue, empty_priority_queue\n\n")


def plan(tier, seed):
    n = 160 if tier == "quick" else 4000
    return {"n_cases": n, "floors": {"evaluations": n // 3}}


def build(rng, kind, with_peek=False, big=False):
    cap = rng.randint(1, 8)
    nops = rng.randint(4, 24)
    small = rng.random() < 0.6
    if big:
        # deep heaps: 10-20 live entries (sift paths of length 3-4 through even and odd slots),
        # filled first, churned, then drained completely so the whole order is observed
        cap = rng.choice([10, 12, 14, 16, 20])
        fill = rng.randint(cap - 3, cap)
        prange = rng.choice([(0, 9), (0, 3), (-50, 50)])
        ops = []
        uid = 100
        size = 0
        for _ in range(fill):
            uid += 1
            ops.append(("push", uid, rng.randint(*prange), False))
            size += 1
        for _ in range(rng.randint(0, 10)):
            op = rng.choice(["pop", "push", "len"]) if 0 < size < cap else ("pop" if size else "push")
            uid += 1
            ops.append((op, uid, rng.randint(*prange), False))
            size += {"push": 1, "pop": -1, "len": 0}[op]
        while size > 0:
            uid += 1
            ops.append(("pop", uid, 0, False))
            size -= 1
        lines = [f"    c: Stack[int, {cap}] = empty_stack()" if kind == "stack" else
                 f"    c: PriorityQueue[int, {cap}] = empty_priority_queue()"]
        return _render(kind, ops, lines), ops, cap
    lines = []
    if kind == "stack":
        lines.append(f"    c: Stack[int, {cap}] = empty_stack()")
    else:
        lines.append(f"    c: PriorityQueue[int, {cap}] = empty_priority_queue()")
    ops = []
    size = 0
    uid = 100
    allow_bad = rng.random() < 0.35
    for k in range(nops):
        choices = ["len"]
        if size < cap:
            choices += ["push"] * 4
        if size > 0:
            choices += ["pop"] * 3 + (["peek"] if with_peek else [])
        if allow_bad and k > nops // 2 and rng.random() < 0.25:
            bad = []
            if size >= cap:
                bad.append("push")
            if size == 0:
                bad += ["pop"] + (["peek"] if with_peek else [])
            if bad:
                op = rng.choice(bad)
                ops.append((op, uid, rng.randint(0, 2), True))
                break
        op = rng.choice(choices)
        prio = rng.randint(0, 2) if small else rng.randint(-50, 50)
        uid += 1
        ops.append((op, uid, prio, False))
        if op == "push":
            size += 1
        elif op == "pop":
            size -= 1
    return _render(kind, ops, lines), ops, cap


def _render(kind, ops, lines):
    for k, (op, v, p, bad) in enumerate(ops):
        if op == "push":
            lines.append(f"    c = c.push({v})" if kind == "stack" else f"    c = c.push({v}, {p})")
        elif op in ("pop", "peek"):
            if kind == "stack":
                lines.append(f"    v{k}, c = c.{op}()")
                lines.append(f'    result("{op}", v{k})')
            else:
                lines.append(f"    p{k}, v{k}, c = c.{op}()")
                lines.append(f'    result("{op}p", p{k})')
                lines.append(f'    result("{op}v", v{k})')
        else:
            lines.append('    result("len", len(c))')
    lines.append('    result("endlen", len(c))')
    return HDR + "@guppy\ndef main() -> None:\n" + "\n".join(lines) + "\n"


def check_history(kind, ops, cap, stream, panic):
    """Replays the observed stream against the model. Returns problem string or None."""
    pos = 0

    def take(tag):
        nonlocal pos
        if pos >= len(stream) or stream[pos][0] != tag:
            return None
        v = stream[pos][1]
        pos += 1
        return v

    model = []
    nchecked = 0
    for op, v, p, bad in ops:
        if bad:
            if panic is None:
                return f"no-panic-on-{'overflow' if op == 'push' else 'empty-' + op}", nchecked
            if pos != len(stream):
                return "results-after-expected-panic", nchecked
            return None, nchecked
        nchecked += 1
        if op == "push":
            model.append((p, v))
        elif op == "len":
            got = take("len")
            if got != len(model):
                return "len-mismatch", nchecked
        elif kind == "stack":
            got = take(op)
            if got is None:
                return "missing-result", nchecked
            if got != model[-1][1]:
                return f"{op}-not-lifo", nchecked
            if op == "pop":
                model.pop()
        else:
            gp, gv = take(op + "p"), take(op + "v")
            if gp is None or gv is None:
                return "missing-result", nchecked
            if (gp, gv) not in model:
                return f"{op}-entry-not-in-multiset", nchecked
            if gp != min(m[0] for m in model):
                return f"{op}-not-minimal-priority", nchecked
            if op == "pop":
                model.remove((gp, gv))
    if panic is not None:
        return "unexpected-panic", nchecked
    got = take("endlen")
    if got != len(model):
        return "final-len-mismatch", nchecked
    return None, nchecked


def judge_text(ctx, text, kind, ops, cap):
    from vf import ctx as C

    try:
        ld = ctx.load(text)
        pkg = ld.main.compile()
    except BaseException as e:
        if C.raised_in_harness(e):
            raise
        msg = ""
        if C.is_guppy_error(e):
            try:
                msg = ctx.render(e)[:600]
            except Exception:
                msg = repr(e)
            return {"status": "discard", "fp": None, "detail": "guppy rejected: " + msg,
                    "counters": {"guppy_rejected": 1}}
        return {"status": "violated", "fp": "crash", "mech": "C27:compiler-crash:" + C.innermost_repo_frame(e),
                "witness": {"text": text, "error": C.short_tb(e)}}
    out = ctx.emulate(pkg)
    stream = out.stream()
    problem, n = check_history(kind, ops, cap, stream, out.panic)
    rec = {"counters": {"scripts_emulated": 1, "ops_checked": n,
                        "expected_panics": int(any(o[3] for o in ops))}}
    if problem:
        rec["status"] = "violated"
        rec["mech"] = f"C27:{kind}:{problem}"
        rec["witness"] = {"text": text, "kind": kind, "ops": ops, "cap": cap, "observed": stream,
                          "panic": out.panic}
    else:
        rec["status"] = "held"
    return rec


def validate_only(ctx, text):
    """peek() cannot be executed under the installed toolchain (tket-qsystem's rebase pass panics on
    the copyable array read it lowers to), so scripts with peek are compiled and validated only."""
    from vf import ctx as C

    try:
        ld = ctx.load(text)
        pkg = ld.main.compile()
    except BaseException as e:
        if C.raised_in_harness(e):
            raise
        if C.is_guppy_error(e):
            return {"status": "violated", "fp": "peek", "mech": "C27:peek-script-rejected",
                    "witness": {"text": text, "error": C.short_tb(e)}}
        return {"status": "violated", "fp": "crash", "mech": "C27:compiler-crash:" + C.innermost_repo_frame(e),
                "witness": {"text": text, "error": C.short_tb(e)}}
    e1, e2 = ctx.validate_both(pkg)
    if e1 or e2:
        return {"status": "violated", "fp": "peek", "mech": "C27:peek-script-invalid-hugr",
                "witness": {"text": text, "V1": e1, "V2": e2}}
    return {"status": "held", "counters": {"peek_scripts_validated_only": 1}}


def run_case(ctx, rng, idx, params, tier):
    kind = "stack" if idx % 3 == 0 else "pq"
    if idx % 8 == 7:
        text, ops, cap = build(rng, kind, with_peek=True)
        rec = validate_only(ctx, text)
        rec["fp"] = f"peek:{kind}:{cap}:" + "".join(o[0][:2] for o in ops)
        return rec
    big = kind == "pq" and idx % 4 != 0
    text, ops, cap = build(rng, kind, big=big)
    rec = judge_text(ctx, text, kind, ops, cap)
    rec.setdefault("counters", {})["deep_heap_scripts" if big and kind == "pq" else "scripts_small"] = 1
    if rec["status"] != "discard":
        rec["fp"] = f"{kind}:{cap}:" + "".join(o[0][:2] for o in ops)
        if idx < 2:
            rec["sample"] = {"program": text.split("def main")[1]}
    return rec


def replay(ctx, w):
    return judge_text(ctx, w["text"], w["kind"], [tuple(o) for o in w["ops"]], w["cap"])
