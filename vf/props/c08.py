"""C08 — Use-before-definition and path-dependent types are rejected exactly.

Own generator (variables are NOT type-stable) + a collecting-semantics oracle over the generator's
IR: possible(x) at each read is a subset of {undef, int, float, bool, tuple}.  /repo must reject
with a 'not defined' error iff undef is possible at some read, with a branch-type error iff more
than one type is possible, and accept otherwise."""
from __future__ import annotations

import hashlib

LEVEL = "exploration"
LEVEL_TEXT = ("Differential testing of the real definedness / branch-type checks against a path-based "
              "collecting interpreter on generated programs with opaque conditions (plus a small class "
              "with literal True/False conditions, modelled as unconditional jumps). Both directions: "
              "rejected iff a problem exists on some path, accepted otherwise.")
LEVEL_NOTE = ("Trusted: the oracle (80 lines; per-variable union over paths is exact because conditions "
              "are opaque). Literal-constant conditions are treated as unconditional jumps (documented "
              "reading of 'ignoring branch condition values'); no reads are generated in dead code. "
              "Nested-function reads need experimental features, which this check enables.")
TECHNIQUE = "reference-model monitor: collecting semantics over paths vs real checker verdict and error family"
RULE = ("functions over <=5 variables assigned int/float/bool/tuple literals and read under nested "
        "if/elif/else, while, for-range, break/continue/return (nesting <=4, <=16 statements), optional "
        "nested function definitions reading outer variables, optional literal True/False conditions; "
        "every fourth case is a G-prog program (valid by construction, incl. dead code after jumps, "
        "walrus, unpacking, nested functions) that must not be rejected for either reason. "
        "distinct = distinct IR shapes (statement kinds, variables, types); non-trivial = has a join")
FLOORS = {"expect_accept": 20, "expect_undefined": 20, "expect_type_conflict": 10,
          "valid_by_construction_functions": 100}
TYPES = {"int": "1", "float": "1.5", "bool": "True", "tuple": "(1, 2)"}
VARS = ["x", "y", "z", "u", "v"]


def plan(tier, seed):
    n = 1600 if tier == "quick" else 40000
    return {"n_cases": n, "floors": {"evaluations": n // 2}}


def worker_init(ctx, job):
    from guppylang_internals.experimental import enable_experimental_features

    enable_experimental_features()


# ------------------------------------------------------------------------------------ generator
class G:
    def __init__(self, rng, const_conds):
        self.r = rng
        self.budget = rng.randint(4, 16)
        self.const = const_conds
        self.nfn = 0

    def cond(self):
        if self.const and self.r.random() < 0.4:
            return ("const", self.r.random() < 0.5)
        return ("c", self.r.randrange(3), self.r.random() < 0.3)

    def block(self, depth, in_loop):
        out = []
        n = self.r.randint(1, 4)
        for _ in range(n):
            if self.budget <= 0:
                break
            self.budget -= 1
            c = self.r.random()
            if c < 0.35:
                out.append(("assign", self.r.choice(VARS), self.r.choice(list(TYPES))))
            elif c < 0.6:
                out.append(("use", self.r.choice(VARS)))
            elif c < 0.75 and depth < 4:
                els = self.block(depth + 1, in_loop) if self.r.random() < 0.6 else None
                out.append(("if", self.cond(), self.block(depth + 1, in_loop), els))
                if always_jumps(out[-1:]):
                    break  # what follows would be dead code (not part of this fragment)
            elif c < 0.83 and depth < 4:
                out.append(("while", self.cond(), self.block(depth + 1, True)))
            elif c < 0.9 and depth < 4:
                out.append(("for", self.r.choice(["i", "j"]), self.r.randint(0, 3),
                            self.block(depth + 1, True)))
            elif c < 0.94 and in_loop:
                out.append((self.r.choice(["break", "continue"]),))
                break
            elif c < 0.97 and depth > 0:
                out.append(("return",))
                break
            elif depth <= 1 and self.nfn < 1:
                self.nfn += 1
                reads = self.r.sample(VARS, self.r.randint(1, 2))
                out.append(("def", f"g{self.nfn}", reads, self.r.random() < 0.6))
        return out


def always_jumps(block):
    if not block:
        return False
    last = block[-1]
    if last[0] in ("break", "continue", "return"):
        return True
    if last[0] == "if" and last[3] is not None:
        return always_jumps(last[2]) and always_jumps(last[3])
    return False


def render(body, ind, out):
    if not body:
        out.append(f"{ind}pass")
    for s in body:
        k = s[0]
        if k == "assign":
            out.append(f"{ind}{s[1]} = {TYPES[s[2]]}")
        elif k == "use":
            out.append(f"{ind}{s[1]}")
        elif k == "if":
            out.append(f"{ind}if {rcond(s[1])}:")
            render(s[2], ind + "    ", out)
            if s[3] is not None:
                out.append(f"{ind}else:")
                render(s[3], ind + "    ", out)
        elif k == "while":
            out.append(f"{ind}while {rcond(s[1])}:")
            render(s[2], ind + "    ", out)
        elif k == "for":
            out.append(f"{ind}for {s[1]} in range({s[2]}):")
            render(s[3], ind + "    ", out)
        elif k in ("break", "continue", "return"):
            out.append(f"{ind}{k}")
        elif k == "def":
            out.append(f"{ind}def {s[1]}() -> None:")
            for v in s[2]:
                out.append(f"{ind}    {v}")
            if s[3]:
                out.append(f"{ind}{s[1]}()")


def rcond(c):
    if c[0] == "const":
        return "True" if c[1] else "False"
    return ("not " if c[2] else "") + f"c{c[1]}"


HDR = "from guppylang import guppy\n\n"


def program(body):
    out = ["@guppy", "def main(c0: bool, c1: bool, c2: bool, x: int) -> None:"]
    render(body, "    ", out)
    return HDR + "\n".join(out) + "\n"


# --------------------------------------------------------------------------------------- oracle
def join(*sts):
    sts = [s for s in sts if s is not None]
    if not sts:
        return None
    keys = set().union(*sts)
    return {k: frozenset().union(*(s.get(k, frozenset({"U"})) for s in sts)) for k in keys}


class Orc:
    def __init__(self, consts_opaque=False):
        self.undef = False
        self.conflict = False
        self.consts_opaque = consts_opaque

    def is_const(self, c, val):
        return (not self.consts_opaque) and c[0] == "const" and c[1] == val

    def read(self, st, x):
        poss = st.get(x, frozenset({"U"}))
        if "U" in poss:
            self.undef = True
        if len(poss - {"U"}) > 1:
            self.conflict = True

    def block(self, st, body, loop):
        """st: var -> frozenset of possibilities, or None if unreachable. loop = [breaks, conts]."""
        for s in body:
            if st is None:
                return None
            k = s[0]
            if k == "assign":
                st = dict(st)
                st[s[1]] = frozenset({s[2]})
            elif k == "use":
                self.read(st, s[1])
            elif k == "if":
                c = s[1]
                t_in = st if not self.is_const(c, False) else None
                e_in = st if not self.is_const(c, True) else None
                a = self.block(t_in, s[2], loop) if t_in is not None else None
                b = (self.block(e_in, s[3], loop) if s[3] is not None else e_in) if e_in is not None else None
                st = join(a, b)
            elif k in ("while", "for"):
                c = s[1] if k == "while" else ("c", 0, False)
                body_ = s[2] if k == "while" else s[3]
                head = st
                exits = None
                for _ in range(40):
                    enter = head if not self.is_const(c, False) else None
                    leave = head if not self.is_const(c, True) else None
                    exits = join(exits, leave)
                    if enter is None:
                        break
                    if k == "for":
                        enter = dict(enter)
                        enter[s[1]] = frozenset({"int"})
                    lp = [None, None]
                    ft = self.block(enter, body_, lp)
                    exits = join(exits, lp[0])
                    new_head = join(head, ft, lp[1])
                    if new_head == head:
                        break
                    head = new_head
                st = exits
            elif k == "break":
                loop[0] = join(loop[0], st)
                return None
            elif k == "continue":
                loop[1] = join(loop[1], st)
                return None
            elif k == "return":
                return None
            elif k == "def":
                for v in s[2]:
                    self.read(st, v)
                st = dict(st)
                st[s[1]] = frozenset({"fn"})
        return st


def fingerprint(body):
    def has_join(b):
        return any(s[0] in ("if", "while", "for") for s in b)

    if not has_join(body):
        return None
    return hashlib.sha1(repr(body).encode()).hexdigest()[:16]


def judge(ctx, body, text):
    from vf import ctx as C

    init = {"x": frozenset({"int"}), "c0": frozenset({"bool"}), "c1": frozenset({"bool"}),
            "c2": frozenset({"bool"})}

    def verdict(opaque):
        o = Orc(consts_opaque=opaque)
        o.block(dict(init), body, [None, None])
        if o.undef and o.conflict:
            return "either"
        if o.undef:
            return "undefined"
        if o.conflict:
            return "conflict"
        return "accept"

    exp = verdict(False)
    if verdict(True) != exp:
        # literal True/False conditions: the two readings of "ignoring branch condition values"
        # (unconditional jump vs opaque) disagree on this program -> not judged
        return {"status": "discard", "fp": None, "detail": "readings of constant conditions disagree",
                "counters": {"ambiguous_constant_condition": 1}}
    counters = {"expect_" + {"accept": "accept", "undefined": "undefined", "conflict": "type_conflict",
                             "either": "both"}[exp]: 1}
    try:
        ld = ctx.load(text)
        ld.main.check()
        got = "accept"
        title = ""
    except BaseException as e:
        if C.raised_in_harness(e):
            raise
        if not C.is_guppy_error(e):
            return {"status": "violated", "fp": "crash", "mech": "C08:checker-crash:" + C.innermost_repo_frame(e),
                    "witness": {"text": text, "error": C.short_tb(e)}, "counters": counters}
        title = str(getattr(getattr(e, "error", None), "title", type(e).__name__))
        if "not defined" in title.lower():
            got = "undefined"
        elif "different types" in title.lower():
            got = "conflict"
        else:
            got = "other:" + title
    rec = {"fp": fingerprint(body), "counters": counters, "sets": {"observed": [got]}}
    ok = (got == exp) or (exp == "either" and got in ("undefined", "conflict"))
    if got.startswith("other:"):
        # rejected for an unrelated reason: outside the two error families; count, do not judge
        return {"status": "discard", "fp": None, "detail": got, "counters": {"other_rejection": 1},
                "sets": {"other_titles": [title]}}
    if ok:
        rec["status"] = "held"
    else:
        rec["status"] = "violated"
        if exp == "accept":
            rec["mech"] = f"C08:false-reject:{got}"
        elif got == "accept":
            rec["mech"] = f"C08:false-accept:{exp}"
        else:
            rec["mech"] = f"C08:wrong-error-family:expected-{exp}-got-{got}"
        rec["witness"] = {"text": text, "expected": exp, "observed": got, "ir": repr(body)}
    return rec


def run_gprog_case(ctx, rng, idx):
    """Programs of the typed generator G-prog are definedness- and type-stable by construction
    (every variable is assigned before use on every path, variables never change type, dead code
    after jumps reads only definitely assigned names).  The checker must therefore never reject one
    of them for the two reasons this property is about."""
    from vf import ctx as C
    from vf.gen import gprog
    from guppylang.defs import GuppyFunctionDefinition

    prog = gprog.generate(rng)
    text = prog.text()
    ld = ctx.load(text)
    counters = {"valid_by_construction_functions": 0}
    for name, d in vars(ld.module).items():
        if not isinstance(d, GuppyFunctionDefinition):
            continue
        counters["valid_by_construction_functions"] += 1
        try:
            d.check()
        except BaseException as e:
            if C.raised_in_harness(e):
                raise
            if not C.is_guppy_error(e):
                # the program is valid by construction: an internal error while deciding definedness
                # is as wrong as a false rejection
                return {"status": "violated", "fp": "gprog", "mech": "C08:checker-crash:" + C.innermost_repo_frame(e),
                        "witness": {"text": text, "function": name, "error": C.short_tb(e)}, "counters": counters}
            title = str(getattr(getattr(e, "error", None), "title", type(e).__name__))
            fam = "undefined" if "not defined" in title.lower() else \
                ("conflict" if "different types" in title.lower() else None)
            if fam:
                mech = f"C08:false-reject:{fam}:valid-by-construction"
                if fam == "undefined" and _accepted_without_statements_after_jumps(ctx, text, name):
                    # classified by intervention, not by shape: deleting the statements that directly
                    # follow a return/break/continue in their block (unreachable under any reading)
                    # makes the rejection disappear
                    mech = "C08:false-reject:undefined:unreachable-statements-after-a-jump-feed-a-use-in-constant-dead-code"
                return {"status": "violated", "fp": "gprog", "mech": mech,
                        "witness": {"text": text, "function": name, "error": ctx.render(e)[:1500]},
                        "counters": counters}
    kinds = set(prog.kinds())
    return {"status": "held", "fp": ("gp:" + prog.fingerprint()) if prog.nontrivial() else None,
            "counters": counters,
            "sets": {"observed": ["accept"], "gprog_kinds": sorted(kinds & {"dead", "while", "for_range", "nested", "if"})}}


def _strip_after_jumps(text):
    import ast

    class T(ast.NodeTransformer):
        def generic_visit(self, node):
            super().generic_visit(node)
            for f in ("body", "orelse", "finalbody"):
                b = getattr(node, f, None)
                if isinstance(b, list):
                    for i, st in enumerate(b):
                        if isinstance(st, (ast.Return, ast.Break, ast.Continue)):
                            del b[i + 1:]
                            break
            return node

    tree = T().visit(ast.parse(text))
    return ast.unparse(ast.fix_missing_locations(tree)) + "\n"


def _accepted_without_statements_after_jumps(ctx, text, name):
    from vf import ctx as C

    try:
        stripped = _strip_after_jumps(text)
        if stripped.strip() == text.strip():
            return False
        ld = ctx.load(stripped, "nodead")
        getattr(ld.module, name).check()
        return True
    except BaseException as e:
        if C.raised_in_harness(e) or type(e).__name__ == "CaseTimeout":
            raise
        return False


COMPTIME_PROBE = '''from guppylang import guppy
from guppylang.std.builtins import comptime

@guppy
def main(k: int @comptime, b: bool, n: int) -> int:
{body}
'''
COMPTIME_BODIES = ["    if b:\n        k = 5\n    return k\n",
                   "    while n > 0:\n        k = k + 1\n        n -= 1\n    return k\n",
                   "    if b:\n        pass\n    else:\n        k = n\n    return k + 1\n"]


def run_comptime_param_case(ctx, rng, idx):
    """A @comptime parameter is a parameter: defined on entry on every path, also when some path
    assigns it.  (Known finding: /repo treats it as a constant until assigned, so a conditional
    assignment makes later reads 'maybe undefined'.)"""
    from vf import ctx as C

    text = COMPTIME_PROBE.format(body=rng.choice(COMPTIME_BODIES))
    ld = ctx.load(text)
    try:
        ld.main.check()
    except BaseException as e:
        if C.raised_in_harness(e):
            raise
        title = str(getattr(getattr(e, "error", None), "title", type(e).__name__))
        if C.is_guppy_error(e) and "not defined" in title.lower():
            return {"status": "violated", "fp": "comptime-param", "mech": "C08:false-reject:assigned-comptime-parameter-maybe-undefined",
                    "witness": {"text": text, "error": ctx.render(e)[:800]}, "counters": {"comptime_param_probes": 1}}
        return {"status": "discard", "fp": None, "detail": title, "counters": {"other_rejection": 1}}
    return {"status": "held", "fp": "comptime-param", "counters": {"comptime_param_probes": 1}}


def run_case(ctx, rng, idx, params, tier):
    if idx % 64 == 1:
        return run_comptime_param_case(ctx, rng, idx)
    if idx % 4 == 3:
        return run_gprog_case(ctx, rng, idx)
    g = G(rng, const_conds=(idx % 8 == 7))
    body = g.block(0, False)
    # initialise a random subset of the variables first so type conflicts are not masked by
    # undefinedness
    pre = [("assign", v, rng.choice(list(TYPES))) for v in VARS if rng.random() < 0.6]
    body = pre + body
    text = program(body)
    rec = judge(ctx, body, text)
    if idx < 3 and rec["status"] in ("held", "violated"):
        rec["sample"] = {"program": text}
    return rec


def replay(ctx, w):
    if 'ir' not in w:
        if "text" not in w or "function" not in w:
            return {'status': 'held', 'note': 're-run the check; witness text attached'}
        from vf import ctx as C

        ld = ctx.load(w["text"], "replay")
        try:
            getattr(ld.module, w["function"]).check()
            return {"status": "held", "observed": "accept"}
        except BaseException as e:
            if C.raised_in_harness(e):
                raise
            return {"status": "violated", "observed": type(getattr(e, "error", e)).__name__,
                    "accepted_without_statements_after_jumps":
                        _accepted_without_statements_after_jumps(ctx, w["text"], w["function"])}
    import ast as _ast

    body = _ast.literal_eval(w["ir"])
    return judge(ctx, body, w["text"])
