"""C26 — Loaded pytket circuits act like the circuit.

Random pytket circuits over 1-2 named registers (creation order != lexicographic order),
asymmetric gates, optional measurements of deterministic bits, are loaded with guppy.load_pytket
(with / without arrays) and through @guppy.pytket stubs with matching or deliberately wrong
signatures.  Oracle: pytket's own statevector (ILO-BE over lexicographically sorted qubits) against
state_result after the call, up to global phase; returned booleans against the circuit's classical
outputs; a stub is accepted iff its signature equals the circuit's shape."""
from __future__ import annotations

import hashlib

import numpy as np

LEVEL = "exploration"
LEVEL_TEXT = ("Differential testing of circuit loading against pytket itself: final state of the real "
              "emulator vs pytket's statevector for unitary circuits, classical outputs for "
              "X/CX+measure circuits, and accept/reject of stub signatures. Symbolic-parameter circuits "
              "are NOT covered (see note).")
LEVEL_NOTE = ("Symbolic parameters: the installed tket decodes circuit parameters as `rotation` inputs "
              "while /repo wires float64 (third-party drift, see selftest allow-list) - that sub-class is "
              "reported in evidence as not covered. Trusted: pytket's get_statevector (ILO-BE, qubits "
              "sorted lexicographically), state_result order calibration, adapter's Tk2Circuit bridge.")
TECHNIQUE = "differential execution against pytket's own simulation (state and classical outputs) + accept/reject table for stubs"
RULE = ("circuits with registers named from {'b','a','q','z'} created in non-sorted order, sizes 1-2, "
        "<=3 qubits, 2-8 gates from H,X,Y,Z,S,T,Sdg,Tdg,V,Rx,Ry,Rz,CX,CZ,CY,CRz; measured "
        "variants use X/CX only; loaded via load_pytket(use_arrays in {False,True}) and @guppy.pytket "
        "stubs with right / wrong arity / wrong return shape; a third of the measured circuits use "
        "non-contiguous bits m[1], m[3], ...; half of the unmeasured circuits are edited in place "
        "(1-3 more gates on the same object) and loaded again. distinct = (register layout, gates, "
        "loading mode)")
FLOORS = {"circuits_reloaded_after_in_place_edit": 5, "circuits_emulated": 15, "stubs_probed": 20}

HDR = '''from guppylang import guppy
from guppylang.std.builtins import result, array, owned
from guppylang.std.quantum import qubit, h, x, t, discard, discard_array, measure
from guppylang.std.debug import state_result

'''


def plan(tier, seed):
    n = 70 if tier == "quick" else 1400
    return {"n_cases": n, "floors": {"evaluations": n // 3}}


def gen_circuit(rng, measured):
    from pytket import Circuit, Qubit, Bit

    big = measured and rng.random() < 0.25
    if big:
        # one register of 11-12 qubits: index 10 must not be sorted before index 2
        regs = [rng.choice(["q", "r"])]
    elif rng.random() < 0.3:
        # names one of which is a prefix of the other, followed by a digit / capital
        regs = rng.sample(rng.choice([["q", "q2"], ["a", "a0", "aB"], ["r1", "r", "r10"]]), 2)
    else:
        regs = rng.sample(["b", "a", "q", "z"], rng.randint(1, 2))
    c = Circuit()
    qubits = []
    sizes = {}
    for r in regs:
        sz = rng.randint(11, 12) if big else rng.randint(1, 2)
        sizes[r] = sz
        reg = c.add_q_register(r, sz)
        qubits += list(reg)
    qubits = qubits[:3] if len(qubits) > 3 else qubits
    nq = c.n_qubits
    qs = c.qubits  # lexicographic
    gates = []
    ng = rng.randint(2, 8)
    for _ in range(ng):
        if measured:
            if nq >= 2 and rng.random() < 0.5:
                a, b = rng.sample(qs, 2)
                c.CX(a, b)
                gates.append("CX")
            else:
                c.X(rng.choice(qs))
                gates.append("X")
            continue
        k = rng.random()
        if k < 0.5 or nq < 2:
            g = rng.choice(["H", "X", "Y", "Z", "S", "T", "Sdg", "Tdg", "V", "Rx", "Ry", "Rz"])
            q = rng.choice(qs)
            if g in ("Rx", "Ry", "Rz"):
                getattr(c, g)(rng.choice([0.25, 0.5, 1.3, -0.7, 1 / 3]), q)
            else:
                getattr(c, g)(q)
            gates.append(g)
        else:
            g = rng.choice(["CX", "CZ", "CY", "CRz"])  # SWAP/CH: no lowering in the installed QIS compiler
            a, b = rng.sample(qs, 2)
            if g == "CRz":
                c.CRz(rng.choice([0.25, 0.7, -1.1]), a, b)
            else:
                getattr(c, g)(a, b)
            gates.append(g)
    nbits = 0
    if measured:
        if rng.random() < 0.35:
            # bits that do not form a 0-based contiguous register (m[1], m[3], ...): still one
            # boolean per classical bit, in lexicographic bit order
            for i, q in enumerate(qs):
                b = Bit("m", 2 * i + 1)
                c.add_bit(b)
                c.Measure(q, b)
            gates.append("stray-bits")
        else:
            creg = c.add_c_register("c", nq)
            for i, q in enumerate(qs):
                c.Measure(q, creg[i])
        nbits = nq
    return c, regs, sizes, gates, nbits


def extend_in_place(rng, c):
    """Append 1-3 more gates to the *same* circuit object (edit-and-reload history)."""
    qs = c.qubits
    added = []
    for _ in range(rng.randint(1, 3)):
        if len(qs) >= 2 and rng.random() < 0.5:
            a, b = rng.sample(qs, 2)
            g = rng.choice(["CX", "CZ"])
            getattr(c, g)(a, b)
        else:
            g = rng.choice(["H", "X", "S", "T", "V"])
            getattr(c, g)(rng.choice(qs))
        added.append(g)
    return added


def flat_names(use_arrays, lex_regs, sizes, nq):
    if use_arrays:
        return [f"r_{r}[{i}]" for r in lex_regs for i in range(sizes[r])]
    return [f"q{i}" for i in range(nq)]


def classical_outputs(c):
    """X/CX circuits from |0..0>: deterministic bits, simulated on bits."""
    from pytket import OpType

    state = {q: 0 for q in c.qubits}
    bits = {}
    for cmd in c.get_commands():
        t_ = cmd.op.type
        if t_ == OpType.X:
            state[cmd.qubits[0]] ^= 1
        elif t_ == OpType.CX:
            state[cmd.qubits[1]] ^= state[cmd.qubits[0]]
        elif t_ == OpType.Measure:
            bits[cmd.bits[0]] = state[cmd.qubits[0]]
    return [bits[b] for b in c.bits]


def run_case(ctx, rng, idx, params, tier):
    measured = idx % 3 == 2
    circ, regs, sizes, gates, nbits = gen_circuit(rng, measured)
    use_arrays = rng.random() < 0.4
    rec = observe(ctx, rng, idx, circ, regs, sizes, gates, nbits, use_arrays, measured)
    if not measured and idx % 2 == 0 and rec["status"] == "held":
        # history: the same circuit object is edited in place and loaded again; the second load must
        # act like the circuit as it is *now*
        added = extend_in_place(rng, circ)
        rec2 = observe(ctx, rng, idx, circ, regs, sizes, gates + ["+"] + added, nbits, use_arrays, measured)
        for k_, v_ in rec2.get("counters", {}).items():
            rec["counters"][k_] = rec["counters"].get(k_, 0) + v_
        rec["counters"]["circuits_reloaded_after_in_place_edit"] = 1
        if rec2["status"] == "violated":
            rec["status"] = "violated"
            rec["violations"] = [{"mech": v["mech"] + ":after-in-place-edit", "witness": v["witness"]}
                                 for v in rec2["violations"]]
    return rec


def observe(ctx, rng, idx, circ, regs, sizes, gates, nbits, use_arrays, measured):
    from vf import ctx as C

    nq = circ.n_qubits
    lex_regs = sorted(sizes)
    counters = {"circuits_emulated": 0, "stubs_probed": 0}
    viols = []
    # ---- stub signature table ------------------------------------------------------------
    ret_ok = "None" if nbits == 0 else ("bool" if nbits == 1 else "tuple[" + ", ".join(["bool"] * nbits) + "]")
    stub_variants = [("match", nq, ret_ok, True)]
    stub_variants.append(("extra-qubit", nq + 1, ret_ok, False))
    if nq > 1:
        stub_variants.append(("missing-qubit", nq - 1, ret_ok, False))
    wrong_ret = "bool" if nbits != 1 else "None"
    stub_variants.append(("wrong-return", nq, wrong_ret, False))
    if nq <= 4:
        stub_variants.append(("owned-qubit", nq, ret_ok, False))
    import types

    for vname, k, ret, want in stub_variants:
        ps = ", ".join(f"q{i}: qubit" + (" @owned" if vname == "owned-qubit" and i == k - 1 else "")
                       for i in range(k))
        src = HDR + f"@guppy.pytket(CIRC)\ndef stub({ps}) -> {ret}: ...\n"
        counters["stubs_probed"] += 1
        try:
            # the circuit object is injected through the module's globals
            import builtins

            builtins.CIRC = circ
            ld = ctx.load(src, "stub")
            ld.stub.check()
            got = True
        except BaseException as e:
            if C.raised_in_harness(e):
                raise
            if not C.is_guppy_error(e):
                viols.append({"mech": "C26:stub-check-crash:" + C.innermost_repo_frame(e),
                              "witness": {"variant": vname, "circuit": repr(circ.get_commands()),
                                          "error": C.short_tb(e, 3)}})
                continue
            got = False
        finally:
            import builtins

            if hasattr(builtins, "CIRC"):
                del builtins.CIRC
        if got != want:
            viols.append({"mech": f"C26:stub-signature:{vname}:{'accepted' if got else 'rejected'}",
                          "witness": {"variant": vname, "stub_qubits": k, "stub_return": ret,
                                      "circuit_qubits": nq, "circuit_bits": nbits}})
    # ---- behaviour --------------------------------------------------------------------------
    import builtins

    builtins.CIRC = circ
    try:
        lines = []
        if use_arrays:
            # one array per register, lexicographic register order
            args = []
            for r in lex_regs:
                lines.append(f"    r_{r} = array(qubit() for _ in range({sizes[r]}))")
                args.append(f"r_{r}")
            call = f"circ_fn({', '.join(args)})"
            all_qubits_expr = None
        else:
            names = [f"q{i}" for i in range(nq)]
            lines += [f"    {n} = qubit()" for n in names]
            call = f"circ_fn({', '.join(names)})"
        # asymmetric input states (unitary class): a wrong qubit mapping cannot cancel out
        if nbits == 0:
            order = flat_names(use_arrays, lex_regs, sizes, nq)
            preps = [["x({q})"], ["h({q})", "t({q})"], ["h({q})"]]
            for i, qn in enumerate(order):
                lines += [f"    {p_.format(q=qn)}" for p_ in preps[i % 3]]
        if nbits == 0:
            lines.append(f"    {call}")
        else:
            lines.append(f"    bits = {call}")
            if use_arrays:
                lines.append('    result("bits", bits)')
            elif nbits == 1:
                lines.append('    result("b0", bits)')
            else:
                for i in range(nbits):
                    lines.append(f'    result("b{i}", bits[{i}])')
        if use_arrays:
            flat = []
            for r in lex_regs:
                for i in range(sizes[r]):
                    flat.append(f"r_{r}[{i}]")
            lines.append(f'    state_result("s", {", ".join(flat)})')
            for r in lex_regs:
                lines.append(f"    discard_array(r_{r})")
        else:
            lines.append(f'    state_result("s", {", ".join(names)})')
            lines += [f"    discard({n})" for n in names]
        text = (HDR + f'circ_fn = guppy.load_pytket("circ_fn", CIRC, use_arrays={use_arrays})\n\n'
                "@guppy\ndef main() -> None:\n" + "\n".join(lines) + "\n")
        try:
            ld = ctx.load(text, "pytket")
            pkg = ld.main.compile()
        except BaseException as e:
            if C.raised_in_harness(e):
                raise
            kind = "guppy-error" if C.is_guppy_error(e) else C.innermost_repo_frame(e)
            msg = ""
            if C.is_guppy_error(e):
                try:
                    msg = ctx.render(e)[:600]
                except Exception:
                    msg = repr(e)
            viols.append({"mech": f"C26:load-or-compile-failed:{kind}",
                          "witness": {"text": text, "circuit": repr(circ.get_commands()), "error": msg or C.short_tb(e, 4)}})
            pkg = None
    finally:
        if hasattr(builtins, "CIRC"):
            del builtins.CIRC
    if pkg is not None:
        out = ctx.emulate(pkg, n_qubits=nq, want_states=True)
        counters["circuits_emulated"] += 1
        if out.panic:
            viols.append({"mech": "C26:unexpected-panic", "witness": {"text": text, "panic": out.panic}})
        else:
            if nbits:
                exp_bits = classical_outputs(circ)
                res = [(t_, v) for t_, v in out.stream() if not str(t_).startswith("STATE")]
                if use_arrays:
                    got_bits = [int(b) for b in res[0][1]] if res else None
                else:
                    got_bits = [int(v) for _, v in res]
                if got_bits != exp_bits:
                    viols.append({"mech": f"C26:classical-outputs-differ:{'arrays' if use_arrays else 'flat'}",
                                  "witness": {"text": text, "circuit": repr(circ.get_commands()),
                                              "expected": exp_bits, "observed": got_bits}})
                # post-measurement state is the basis state
                exp = np.zeros(2 ** nq, dtype=complex)
                exp[int("".join(map(str, exp_bits)), 2)] = 1
            else:
                from pytket import Circuit as _C

                ref = _C()
                for r in regs:
                    ref.add_q_register(r, sizes[r])
                for i, q in enumerate(ref.qubits):
                    if i % 3 == 0:
                        ref.X(q)
                    elif i % 3 == 1:
                        ref.H(q)
                        ref.T(q)
                    else:
                        ref.H(q)
                ref.append(circ)
                exp = ref.get_statevector()
            got = np.asarray(dict(out.states[0])["s"].as_single_state())
            ov = abs(np.vdot(exp, got))
            if abs(ov - 1) > 1e-8:
                viols.append({"mech": f"C26:state-differs:{'arrays' if use_arrays else 'flat'}",
                              "witness": {"text": text, "circuit": repr(circ.get_commands()),
                                          "registers_created": regs, "overlap": float(ov)}})
    if use_arrays and "stray-bits" in gates and viols:
        # array mode builds the result type from `circuit.c_registers`, which lists only registers
        # indexed contiguously from 0: measured bits m[1], m[3] are silently left out (known finding)
        viols = [{"mech": "C26:array-mode-drops-bits-outside-contiguous-registers", "witness": viols[0]["witness"]}]
    seen = set()
    uniq = [v for v in viols if not (v["mech"] in seen or seen.add(v["mech"]))]
    layout = (tuple(regs), tuple(sizes[r] for r in regs), use_arrays, measured)
    rec = {"status": "violated" if uniq else "held",
           "fp": hashlib.sha1(repr((layout, gates)).encode()).hexdigest()[:16],
           "counters": counters,
           "sets": {"layouts": [repr(layout)], "gates": sorted(set(gates))}}
    if uniq:
        rec["violations"] = uniq
    if idx < 2:
        rec["sample"] = {"circuit": repr(circ.get_commands()), "registers_created": regs,
                         "use_arrays": use_arrays}
    return rec


def extra_coverage(counters, sets):
    return {"not_covered": ["symbolic circuit parameters (installed tket decodes them as `rotation`, "
                            "/repo wires float64: third-party drift)"]}


def replay(ctx, w):
    return {"status": "held", "note": "circuit witness: re-run `./check C26 --seed <seed>`"}
