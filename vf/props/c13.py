"""C13 — Generic instantiation and monomorphization preserve meaning.

A (laws, monitor on the real FunctionType.instantiate_partial / instantiate): random signatures with
interleaved type / nat / non-nat const / comptime parameters and a random split of a full
instantiation into two stages.  The two-stage result must equal the one-stage result, both must
equal an independent term substitution, and the intermediate type's parameters must be re-indexed
0..k-1 in order with bodies mentioning only those indices.
B (end-to-end): generic functions (type, nat and @comptime parameters in varying order, generic ->
generic calls) are called at several instantiations and compared on the real emulator with textual
copies in which the arguments are substituted; both programs must validate."""
from __future__ import annotations

import hashlib

from vf.gen import gtypes

LEVEL = "exploration"
LEVEL_TEXT = ("A: random law checking of the real instantiation functions against an independent "
              "substitution on own terms (composition law, index discipline). B: differential execution "
              "of generic programs against textually specialised copies on the real emulator plus HUGR "
              "validation of both.")
LEVEL_NOTE = ("Trusted: own term substitution (gtypes terms); textual specialisation done by the "
              "generator (it knows the template); adapter + lowering + installed selene.")
TECHNIQUE = "runtime law monitor on instantiate_partial/instantiate + differential execution against textually specialised copies"
RULE = ("A: 2-5 parameters of kinds type / nat const / int or bool const (comptime-marked or not) / const "
        "typed by an earlier type parameter; inputs and output over bound variables, arrays sized by "
        "const parameters, options, tuples; every subset as stage 1. B: templates with (T, n, comptime "
        "k) in all orders, 2-4 instantiations each, generic->generic calls, generic struct; B2: call "
        "chains f0->f1->f2 with comptime int/bool/nat, comptime-of-generic-type, runtime generic and "
        "runtime int parameters in random order, comptime parameters forwarded down the chain. distinct = "
        "(parameter kind sequence, stage split) for A, (template, instantiation types) for B")
FLOORS = {"law_checks": 300, "program_pairs": 2, "chains_compiled": 10, "chains_executed": 5}
ENV = None
OBS = {}


def plan(tier, seed):
    n = 40 if tier == "quick" else 1000
    return {"n_cases": n, "floors": {"evaluations": n // 2}}


def worker_init(ctx, job):
    global ENV
    ENV = gtypes.TyEnv(ctx)


# ------------------------------------------------------------------------------------- part A
def gen_sig(rng):
    k = rng.randint(2, 5)
    params = []  # (kind, extra)
    for i in range(k):
        c = rng.random()
        tparams = [j for j, p in enumerate(params) if p[0] == "type"]
        if c < 0.4:
            params.append(("type", None))
        elif c < 0.65:
            params.append(("nat", None))
        elif c < 0.85:
            params.append(("const", (rng.choice(["int", "bool"]), rng.random() < 0.6)))
        elif tparams:
            params.append(("const_of", rng.choice(tparams)))
        else:
            params.append(("type", None))

    def ty(depth):
        c = rng.random()
        tps = [j for j, p in enumerate(params) if p[0] == "type"]
        nps = [j for j, p in enumerate(params) if p[0] == "nat"]
        if depth <= 0 or c < 0.35:
            if tps and rng.random() < 0.6:
                return ("bvar", rng.choice(tps), True, True)
            return rng.choice([("int",), ("float",), ("bool",)])
        if c < 0.55 and nps:
            return ("array", ty(depth - 1), ("bcvar", rng.choice(nps)))
        if c < 0.7:
            return ("option", ty(depth - 1))
        if c < 0.9:
            return ("tuple", tuple(ty(depth - 1) for _ in range(rng.randint(1, 3))))
        return ("array", ty(depth - 1), ("k", rng.randint(1, 3)))

    inputs = [ty(2) for _ in range(rng.randint(1, 3))]
    output = ty(2)
    return params, inputs, output


def real_sig(params, inputs, output):
    from guppylang_internals.tys import builtin as B
    from guppylang_internals.tys.param import ConstParam, TypeParam
    from guppylang_internals.tys.ty import BoundTypeVar, FuncInput, FunctionType, InputFlags

    ps = []
    for i, (kind, extra) in enumerate(params):
        if kind == "type":
            ps.append(TypeParam(i, f"T{i}", True, True))
        elif kind == "nat":
            ps.append(ConstParam(i, f"n{i}", B.nat_type()))
        elif kind == "const":
            t = B.int_type() if extra[0] == "int" else B.bool_type()
            ps.append(ConstParam(i, f"c{i}", t, from_comptime_arg=extra[1]))
        else:
            ps.append(ConstParam(i, f"x{i}", BoundTypeVar(f"T{extra}", extra, True, True)))
    ins = [FuncInput(ENV.ty(t), InputFlags.NoFlags) for t in inputs]
    return FunctionType(ins, ENV.ty(output), ps)


def gen_inst(rng, params):
    """Full instantiation as (own terms, real Arguments)."""
    from guppylang_internals.tys import builtin as B
    from guppylang_internals.tys.arg import ConstArg, TypeArg
    from guppylang_internals.tys.const import ConstValue

    terms, args = [], []
    for i, (kind, extra) in enumerate(params):
        if kind == "type":
            t = rng.choice([("int",), ("float",), ("bool",), ("tuple", (("int",), ("bool",))),
                            ("option", ("float",)), ("array", ("int",), ("k", 2)), ("nat",)])
            if any(p[0] == "const_of" and p[1] == i for p in params):
                t = rng.choice([("int",), ("bool",)])
            terms.append(t)
            args.append(TypeArg(ENV.ty(t)))
        elif kind == "nat":
            v = rng.randint(0, 5)
            terms.append(("k", v))
            args.append(ConstArg(ConstValue(B.nat_type(), v)))
        elif kind == "const":
            v = rng.randint(-3, 9) if extra[0] == "int" else rng.random() < 0.5
            terms.append(("cv", v))
            args.append(ConstArg(ConstValue(B.int_type() if extra[0] == "int" else B.bool_type(), v)))
        else:
            tt = terms[extra]
            v = rng.randint(0, 9) if tt == ("int",) else True
            terms.append(("cv", v))
            args.append(ConstArg(ConstValue(ENV.ty(tt), v)))
    return terms, args


def subst_term(t, inst):
    k = t[0]
    if k == "bvar":
        return inst[t[1]]
    if k == "bcvar":
        return inst[t[1]]
    if k == "tuple":
        return ("tuple", tuple(subst_term(x, inst) for x in t[1]))
    if k == "array":
        return ("array", subst_term(t[1], inst), subst_term(t[2], inst) if t[2][0] == "bcvar" else t[2])
    if k == "option":
        return ("option", subst_term(t[1], inst))
    return t


def bound_indices(ty):
    return {v.idx for v in ty.bound_vars}


def law_check(rng):
    from guppylang_internals.tys.param import ConstParam

    params, inputs, output = gen_sig(rng)
    f = real_sig(params, inputs, output)
    terms, args = gen_inst(rng, params)
    k = len(params)
    stage1 = [rng.random() < 0.5 for _ in range(k)]
    partial = [a if s else None for a, s in zip(args, stage1)]
    rest = [a for a, s in zip(args, stage1) if not s]
    wit = {"params": params, "inputs": inputs, "output": output, "instantiation": terms, "stage1": stage1}
    viols = []
    try:
        full = f.instantiate(args)
        mid = f.instantiate_partial(partial)
        two = mid.instantiate(rest)
    except BaseException as e:
        from vf import ctx as C

        if C.raised_in_harness(e):
            raise
        return [{"mech": "C13:instantiate-raised:" + C.innermost_repo_frame(e),
                 "witness": {**wit, "error": C.short_tb(e, 3)}}], params, stage1
    if two != full:
        viols.append({"mech": "C13:two-stage-differs-from-one-stage",
                      "witness": {**wit, "one_stage": str(full), "two_stage": str(two)}})
    # independent substitution
    exp_in = [subst_term(t, terms) for t in inputs]
    exp_out = subst_term(output, terms)
    got_in = [ENV.term(i.ty) for i in full.inputs]
    got_out = ENV.term(full.output)
    if got_in != exp_in or got_out != exp_out:
        viols.append({"mech": "C13:instantiate-differs-from-substitution",
                      "witness": {**wit, "expected": [exp_in, exp_out], "observed": [got_in, got_out]}})
    # index discipline of the intermediate type
    n_rem = stage1.count(False)
    idxs = [p.idx for p in mid.params]
    if idxs != list(range(n_rem)):
        viols.append({"mech": "C13:intermediate-parameter-indices", "witness": {**wit, "indices": idxs}})
    orig_names = [f.params[i].name for i, s in enumerate(stage1) if not s]
    if [p.name for p in mid.params] != orig_names:
        viols.append({"mech": "C13:intermediate-parameter-order", "witness": {**wit, "names": [p.name for p in mid.params]}})
    used = set()
    for i in mid.inputs:
        used |= bound_indices(i.ty)
    used |= bound_indices(mid.output)
    for p in mid.params:
        if isinstance(p, ConstParam):
            used |= bound_indices(p.ty)
    if any(u >= n_rem for u in used):
        viols.append({"mech": "C13:intermediate-type-mentions-unbound-index",
                      "witness": {**wit, "indices_used": sorted(used), "remaining": n_rem}})
    # the comptime marker of remaining parameters must survive (it decides how they are bound)
    for p, i in zip(mid.params, [i for i, s in enumerate(stage1) if not s]):
        o = f.params[i]
        if isinstance(o, ConstParam) and o.from_comptime_arg != p.from_comptime_arg:
            # not demanded by the statement (no behavioural consequence found): observation only
            OBS["comptime_marker_dropped_by_with_idx"] = OBS.get("comptime_marker_dropped_by_with_idx", 0) + 1
            break
    return viols, params, stage1


# ------------------------------------------------------------------------------------- part B
VAL = {"int": ["3", "-4", "11"], "float": ["1.5", "-0.25"], "bool": ["True", "False"]}


def gen_program(rng):
    """(generic text, specialised text, label)"""
    order = rng.choice([["xs", "x", "k"], ["k", "xs", "x"], ["x", "k", "xs"], ["xs", "k", "x"]])
    use_struct = rng.random() < 0.4
    sig = {"xs": "xs: array[T, n]", "x": "x: T", "k": "k: int @comptime"}
    hdr = ("from typing import Generic\nfrom guppylang import guppy\n"
           "from guppylang.std.builtins import result, array, comptime, owned\n\n")
    gen = hdr + 'T = guppy.type_var("T")\nn = guppy.nat_var("n")\n\n'
    spec = hdr
    if use_struct:
        gen += "@guppy.struct\nclass Box(Generic[T, n]):\n    item: T\n    items: array[T, n]\n\n"
    # (iteration / copy() of arrays with generic size cannot be lowered by the installed QIS compiler)
    # and neither can element reads of arrays with a generic element type (same rebase-pass panic
    # as Stack.peek, see C27)
    body_g = "    first = x\n    return (x, first), len(xs) * 10 + k\n"
    gen += f"@guppy\ndef gen({', '.join(sig[o] for o in order)}) -> tuple[tuple[T, T], int]:\n" + body_g + "\n"
    gen += ("@guppy\ndef outer(ys: array[T, n], y: T) -> int:\n"
            f"    a, b = gen({', '.join({'xs': 'ys', 'x': 'y', 'k': '7'}[o] for o in order)})\n    return b + 1\n\n")
    if use_struct:
        gen += ("@guppy\ndef boxed(b: Box[T, n] @owned) -> tuple[T, int]:\n"
                "    return b.item, len(b.items)\n\n")
    calls_g, calls_s = [], []
    insts = []
    for j in range(rng.randint(2, 4)):
        ty = rng.choice(["int", "float", "bool"])
        n = rng.randint(1, 4)
        k = rng.randint(0, 9)
        elems = [rng.choice(VAL[ty]) for _ in range(n)]
        xv = rng.choice(VAL[ty])
        insts.append((ty, n, k))
        arr = f"array({', '.join(elems)})"
        argmap = {"xs": arr, "x": xv, "k": str(k)}
        # specialised copies
        sname = f"gen_{j}"
        ssig = {"xs": f"xs: array[{ty}, {n}]", "x": f"x: {ty}"}
        spec += (f"@guppy\ndef {sname}({', '.join(ssig[o] for o in order if o != 'k')}) -> tuple[tuple[{ty}, {ty}], int]:\n"
                 + body_g.replace("+ k", f"+ {k}") + "\n")
        spec += (f"@guppy\ndef outer_{j}(ys: array[{ty}, {n}], y: {ty}) -> int:\n"
                 "    b = len(ys) * 10 + 7\n    return b + 1\n\n")
        if use_struct:
            spec += (f"@guppy.struct\nclass Box_{j}:\n    item: {ty}\n    items: array[{ty}, {n}]\n\n"
                     f"@guppy\ndef boxed_{j}(b: Box_{j} @owned) -> tuple[{ty}, int]:\n"
                     "    return b.item, len(b.items)\n\n")
        for target, lst, gname, oname, bname, box in ((calls_g, None, "gen", "outer", "boxed", "Box"),
                                                       (calls_s, None, sname, f"outer_{j}", f"boxed_{j}", f"Box_{j}")):
            if gname == "gen":
                args = ", ".join(argmap[o] for o in order)
            else:
                args = ", ".join(argmap[o] for o in order if o != "k")
            target.append(f"    (r{j}, f{j}), s{j} = {gname}({args})")
            target.append(f'    result("r{j}", r{j})')
            target.append(f'    result("f{j}", f{j})')
            target.append(f'    result("s{j}", s{j})')
            target.append(f'    result("o{j}", {oname}({arr}, {xv}))')
            if use_struct:
                target.append(f"    bi{j}, bn{j} = {bname}({box}({xv}, {arr}))")
                target.append(f'    result("bi{j}", bi{j})')
                target.append(f'    result("bn{j}", bn{j})')
    gen += "@guppy\ndef main() -> None:\n" + "\n".join(calls_g) + "\n"
    spec += "@guppy\ndef main() -> None:\n" + "\n".join(calls_s) + "\n"
    label = ("-".join(order), use_struct, tuple(insts))
    return gen, spec, label


# ------------------------------------------------------------------------------------ part B2
# Chains of generic functions f0 -> f1 -> f2 whose parameters mix comptime values of concrete type
# (int / bool / nat), comptime values of *generic* type, runtime generic values and runtime ints, in
# random order, with comptime parameters forwarded down the chain (composed partial
# monomorphisation).  The reference result is what the textually specialised copy computes, which
# the generator evaluates itself: acc_i = expr_i + 100 * acc_(i+1), and the carried value passes
# through unchanged.

CARRY_VALS = {"int": ["42", "-7", "9"], "bool": ["True", "False"], "float": ["2.5", "-0.75"], "nat": ["3", "11"]}


def gen_chain(rng):
    """-> (module text, expected result stream, label)"""
    depth = rng.choice([1, 2, 2, 3, 3, 3])
    hdr = ("from guppylang import guppy\nfrom guppylang.std.builtins import result, comptime, nat, array\n\n"
           'T = guppy.type_var("T")\nV = guppy.type_var("V")\nW = guppy.type_var("W")\n\n'
           "@guppy.struct\nclass PairS:\n    a: int\n    b: int\n\n")
    # nat is the one type whose comptime values become HUGR bounded-nat parameters: weight it up
    carry_ty = rng.choice(["int", "bool", "float", "nat", "nat", "nat"])
    carry_val = rng.choice(CARRY_VALS[carry_ty])
    carry_comptime = rng.random() < 0.7
    fns = []
    for i in range(depth):
        extras = []
        for j in range(rng.randint(1, 3)):
            kind = rng.choice(["cint", "cbool", "cnat", "rint", "rgen", "rgen2"])
            if kind == "rgen" and any(e[0] == "rgen" for e in extras):
                kind = "rint"
            if kind == "rgen2" and any(e[0] == "rgen2" for e in extras):
                kind = "cint"
            extras.append((kind, f"e{i}_{j}"))
        # the top function may take the carry at its concrete type (then T := that type further down)
        concrete_carry = (i == 0 and depth > 1 and rng.random() < 0.5)
        fns.append({"extras": extras, "concrete_carry": concrete_carry})
    label = []
    # values chosen in main for f0's extras; forwarded or replaced by literals further down
    def lit(kind):
        return {"cint": str(rng.randint(-5, 9)), "cbool": rng.choice(["True", "False"]),
                "cnat": str(rng.randint(0, 7)), "rint": str(rng.randint(-9, 9)),
                "rgen": rng.choice(["4", "True", "1.5", "9", "42"]),
                "rgen2": rng.choice(["6", "False", "2.5", "42", "-7"])}[kind]

    def ival(kind, v):
        if kind in ("cint", "cnat", "rint"):
            return int(v)
        if kind == "cbool":
            return 1 if v == "True" else 0
        return 0

    text = [hdr]
    # build bottom-up so callers know callee signatures
    values = [dict() for _ in range(depth)]   # name -> literal text (the value flowing at run time)
    for e_kind, e_name in fns[0]["extras"]:
        values[0][e_name] = lit(e_kind)
    call_args = [None] * depth
    for i in range(depth - 1):
        args = []
        for e_kind, e_name in fns[i + 1]["extras"]:
            same = [n_ for k_, n_ in fns[i]["extras"] if k_ == e_kind]
            if same and rng.random() < 0.6:
                src = rng.choice(same)
                args.append(src)
                values[i + 1][e_name] = values[i][src]
            else:
                v = lit(e_kind)
                args.append(v)
                values[i + 1][e_name] = v
        call_args[i] = args
    accs = [0] * (depth + 1)
    for i in reversed(range(depth)):
        coef = {}
        own = 0
        for j, (k_, n_) in enumerate(fns[i]["extras"]):
            coef[n_] = j + 1
            own += (j + 1) * ival(k_, values[i][n_])
        fns[i]["coef"] = coef
        accs[i] = own + 100 * accs[i + 1]
    for i in reversed(range(depth)):
        f = fns[i]
        ps = []
        cty = carry_ty if f["concrete_carry"] else "T"
        carry_p = f"c: {cty}" + (" @comptime" if carry_comptime else "")
        extra_ps = []
        for k_, n_ in f["extras"]:
            extra_ps.append({"cint": f"{n_}: int @comptime", "cbool": f"{n_}: bool @comptime",
                             "cnat": f"{n_}: nat @comptime", "rint": f"{n_}: int", "rgen": f"{n_}: V",
                             "rgen2": f"{n_}: W"}[k_])
        pos = rng.randint(0, len(extra_ps))
        ps = extra_ps[:pos] + [carry_p] + extra_ps[pos:]
        f["order"] = [n_ for _, n_ in f["extras"]][:pos] + ["c"] + [n_ for _, n_ in f["extras"]][pos:]
        terms = []
        for k_, n_ in f["extras"]:
            c_ = f["coef"][n_]
            if k_ in ("cint", "rint"):
                terms.append(f"{c_} * {n_}")
            elif k_ in ("cbool", "cnat"):
                terms.append(f"{c_} * int({n_})")
        expr = " + ".join(terms) if terms else "0"
        body = []
        if rng.random() < 0.3:
            # a struct constructor / builtin used as a first-class value inside a partially
            # monomorphised function, *before* its kept parameters are referred to
            body.append("    mk = PairS")
            body.append(f"    pq = mk({3 + i}, 4)")
            expr = f"(pq.a - {3 + i}) + " + expr
            f["ctor_value"] = True
        if i + 1 < depth:
            nxt = fns[i + 1]
            amap = dict(zip([n_ for _, n_ in nxt["extras"]], call_args[i]))
            amap["c"] = "c"
            body.append(f"    sub, cc = f{i + 1}({', '.join(amap[o] for o in nxt['order'])})")
            body.append(f"    return {expr} + 100 * sub, cc")
        else:
            body.append(f"    return {expr}, c")
        text.append(f"@guppy\ndef f{i}({', '.join(ps)}) -> tuple[int, {cty}]:\n" + "\n".join(body) + "\n\n")
        label.append(tuple(k_ for k_, _ in f["extras"]) + (("C" if f["concrete_carry"] else "G") + ("c" if carry_comptime else "r"),))
    amap = {n_: values[0][n_] for _, n_ in fns[0]["extras"]}
    amap["c"] = carry_val
    main = ["@guppy", "def main() -> None:"]
    if carry_ty == "nat" and not carry_comptime:
        main.append(f"    cv: nat = {carry_val}")
        amap["c"] = "cv"
    elif carry_ty == "nat" and not fns[0]["concrete_carry"]:
        # a bare literal would instantiate T := int; make the nat-ness explicit
        amap["c"] = f"comptime(nat_{carry_val})"
        text.insert(1, f"import guppylang.std.builtins as _b\nnat_{carry_val} = _b.nat({carry_val}) if False else {carry_val}\n\n")
    main.append(f"    a, c = f0({', '.join(amap[o] for o in fns[0]['order'])})")
    main.append('    result("a", a)')
    main.append('    result("c", c)')
    cexp = {"int": int, "bool": lambda v: v == "True", "float": float, "nat": int}[carry_ty](carry_val)
    exp = [("a", accs[0]), ("c", cexp)]

    def evaluate(top):
        vals = [dict() for _ in range(depth)]
        vals[0] = dict(top)
        for i_ in range(depth - 1):
            for (e_kind, e_name), src in zip(fns[i_ + 1]["extras"], call_args[i_]):
                vals[i_ + 1][e_name] = vals[i_][src] if src in vals[i_] else src
        acc = 0
        for i_ in reversed(range(depth)):
            own = sum(fns[i_]["coef"][n_] * ival(k_, vals[i_][n_]) for k_, n_ in fns[i_]["extras"])
            acc = own + 100 * acc
        return acc

    assert evaluate(values[0]) == accs[0]
    # further calls of f0 with other values: several monomorphisations of the whole chain in one
    # compile (the checked AST of each function is shared between them)
    for j in range(rng.randint(0, 2)):
        top = {n_: lit(k_) for k_, n_ in fns[0]["extras"]}
        am = dict(top)
        am["c"] = amap["c"]
        main.append(f"    a{j}, c{j} = f0({', '.join(am[o] for o in fns[0]['order'])})")
        main.append(f'    result("a{j}", a{j})')
        exp.append((f"a{j}", evaluate(top)))
    text.append("\n".join(main) + "\n")
    return "".join(text), exp, (depth, carry_ty, carry_comptime, tuple(label))


def run_chain(ctx, rng):
    from vf import ctx as C

    text, exp, label = gen_chain(rng)
    try:
        ld = ctx.load(text, "chain")
        pkg = ld.main.compile()
    except BaseException as e:
        if C.raised_in_harness(e):
            raise
        if C.is_guppy_error(e):
            try:
                msg = ctx.render(e)[:700]
            except Exception:
                msg = repr(e)
            return [{"mech": "C13:chain-template-rejected", "witness": {"text": text, "error": msg}}], label, False
        return [{"mech": "C13:chain-compile-crash:" + C.innermost_repo_frame(e),
                 "witness": {"text": text, "error": C.short_tb(e, 4)}}], label, False
    e1, e2 = ctx.validate_both(pkg)
    if e1 or e2:
        return [{"mech": "C13:chain-invalid-hugr", "witness": {"text": text, "V1": (e1 or "")[:400],
                                                                 "V2": (e2 or "")[:400]}}], label, False
    try:
        out = ctx.emulate(pkg)
    except C.HarnessError as he:
        if "PanicException" in str(he):
            return [], label, False  # still-generic function the installed QIS compiler cannot lower
        raise
    got = [(t, (bool(v) if isinstance(e_, bool) else v)) for (t, v), (_, e_) in zip(out.stream(), exp)]
    if out.panic or got != exp:
        return [{"mech": "C13:chain-result-differs-from-specialised-evaluation",
                 "witness": {"text": text, "expected": exp, "observed": out.stream(), "panic": out.panic}}], label, True
    return [], label, True


def run_pair(ctx, gen, spec):
    from vf import ctx as C

    outs = []
    for name, text in (("generic", gen), ("specialised", spec)):
        try:
            ld = ctx.load(text, name)
            pkg = ld.main.compile()
        except BaseException as e:
            if C.raised_in_harness(e):
                raise
            msg = ""
            if C.is_guppy_error(e):
                try:
                    msg = ctx.render(e)[:600]
                except Exception:
                    msg = repr(e)
                return None, {"which": name, "rejected": msg}
            return [{"mech": f"C13:{name}-compile-crash:" + C.innermost_repo_frame(e),
                     "witness": {"text": text, "error": C.short_tb(e, 4)}}], None
        e1, e2 = ctx.validate_both(pkg)
        if e1 or e2:
            return [{"mech": f"C13:{name}-program-invalid-hugr",
                     "witness": {"text": text, "V1": (e1 or "")[:500], "V2": (e2 or "")[:500]}}], None
        try:
            out = ctx.emulate(pkg)
        except C.HarnessError as he:
            if name == "generic" and "PanicException" in str(he):
                # the installed QIS compiler cannot lower some still-generic functions (arrays with
                # variable type args): this pair is validated only, its values are not observed
                return [], {"which": "generic", "not_executable": str(he)[:200]}
            raise
        outs.append((out.stream(), out.panic))
    if outs[0] != outs[1]:
        return [{"mech": "C13:generic-differs-from-specialised-copy",
                 "witness": {"generic": gen, "specialised": spec, "generic_stream": outs[0],
                             "specialised_stream": outs[1]}}], None
    return [], None


def run_case(ctx, rng, idx, params, tier):
    ENV.refresh()
    viols = []
    counters = {"law_checks": 0, "program_pairs": 0}
    OBS.clear()
    shapes = set()
    for _ in range(60):
        v, ps, stage1 = law_check(rng)
        counters["law_checks"] += 1
        shapes.add(repr(([p[0] for p in ps], stage1)))
        viols += v
    fp_b = None
    if idx % 2 == 0:
        gen, spec, label = gen_program(rng)
        v, rej = run_pair(ctx, gen, spec)
        ENV.refresh()
        if rej is not None and "not_executable" in rej:
            counters["program_pairs_validated_only"] = 1
        elif rej is not None:
            counters["program_rejected"] = 1
            viols.append({"mech": f"C13:template-rejected:{rej['which']}", "witness": {"generic": gen, "specialised": spec, **rej}})
        else:
            counters["program_pairs"] = 1
            viols += v
            fp_b = repr(label)
    if idx % 2 == 1:
        for _ in range(3):
            v, label, executed = run_chain(ctx, rng)
            ENV.refresh()
            counters["chains_compiled"] = counters.get("chains_compiled", 0) + 1
            if executed:
                counters["chains_executed"] = counters.get("chains_executed", 0) + 1
            viols += v
            shapes.add("chain:" + repr(label))
    counters.update({"obs_" + k: v for k, v in OBS.items()})
    seen = set()
    uniq = [v for v in viols if not (v["mech"] in seen or seen.add(v["mech"]))]
    rec = {"status": "violated" if uniq else "held",
           "fp": hashlib.sha1(repr((sorted(shapes)[:5], fp_b)).encode()).hexdigest()[:16],
           "counters": counters, "sets": {"law_shapes": sorted(shapes)[:300]}}
    if fp_b:
        rec["sets"]["program_labels"] = [fp_b]
    if uniq:
        rec["violations"] = uniq[:10]
    if idx < 2:
        g, s, _ = gen_program(rng)
        rec["sample"] = {"generic_program": g[-700:]}
    return rec


def replay(ctx, w):
    return {"status": "held", "note": "re-run `./check C13 --seed <seed>`"}
