"""C20 — Quantum operations implement their documented gates.

Generated gate sequences (<= 12 gates, 1-3 qubits, qubits passed in every order, angles built from
angle arithmetic) run on the real emulator's statevector simulator; `state_result` is compared, up
to global phase, with O-sv: a numpy statevector simulator whose gate matrices are transcribed from
the documented definitions.  Measurement / reset / project_z sequences are checked as projective
Z-basis operations: the observed outcome must have non-zero probability and the post-state must be
the normalised projection."""
from __future__ import annotations

import cmath
import hashlib
import math

import numpy as np

LEVEL = "exploration"
LEVEL_TEXT = ("Differential testing of the quantum standard library on the real emulator against an "
              "independent numpy statevector simulation built from the documented gate matrices; held "
              "on N circuits over M distinct (gate, argument order) uses.")
LEVEL_NOTE = ("Trusted: O-sv (gate matrices transcribed from the docstrings; CH taken as |0><0| x I + "
              "|1><1| x H); state_result's qubit order (first listed = most significant) is asserted by "
              "an asymmetric calibration circuit in every worker (mismatch => harness error, not a "
              "verdict); installed selene Quest simulator; tolerance 1e-9 up to global phase. "
              "qsystem.measure/measure_and_reset are not executable in this toolchain and are excluded.")
TECHNIQUE = "differential execution against an independent statevector reference model (runtime monitor over state_result)"
RULE = ("circuits of 1-12 gates over 1-3 qubits from h,x,y,z,s,sdg,t,tdg,v,vdg,rx,ry,rz,crz,cx,cy,cz,ch,"
        "toffoli and qsystem phased_x,zz_max,zz_phase,rz, every qubit order, angles from pi/k, "
        "angle(c), a+b, a-b, -a, a*c, c*a, a/c; optional mid-circuit project_z (+reset) and final "
        "measure of a subset. distinct = (gate, qubit-order pattern) multiset per circuit")
FLOORS = {"circuits_emulated": 20, "gates_applied": 200}

HDR = '''from guppylang import guppy
from guppylang.std.builtins import result
from guppylang.std.quantum import (qubit, h, x, y, z, s, sdg, t, tdg, v, vdg, rx, ry, rz, crz,
                                   cx, cy, cz, ch, toffoli, project_z, reset, measure, discard)
from guppylang.std import qsystem
from guppylang.std.angles import angle, pi
from guppylang.std.debug import state_result
from collections.abc import Callable

@guppy
def app1(f: Callable[[qubit], None], q: qubit) -> None:
    f(q)

@guppy
def app2(f: Callable[[qubit, qubit], None], a: qubit, b: qubit) -> None:
    f(a, b)

@guppy
def appr(f: Callable[[qubit, angle], None], q: qubit, a: angle) -> None:
    f(q, a)

@guppy
def appb(f: Callable[[qubit], bool], q: qubit) -> bool:
    return f(q)

'''
SQ2 = 1 / math.sqrt(2)
I2 = np.eye(2, dtype=complex)
H = np.array([[1, 1], [1, -1]], dtype=complex) * SQ2
X = np.array([[0, 1], [1, 0]], dtype=complex)
Y = np.array([[0, -1j], [1j, 0]], dtype=complex)
Z = np.array([[1, 0], [0, -1]], dtype=complex)


def phase(a):
    return np.array([[1, 0], [0, cmath.exp(1j * a)]], dtype=complex)


def Rz(th):
    return np.array([[cmath.exp(-0.5j * th), 0], [0, cmath.exp(0.5j * th)]], dtype=complex)


def Rx(th):
    c, s_ = math.cos(th / 2), math.sin(th / 2)
    return np.array([[c, -1j * s_], [-1j * s_, c]], dtype=complex)


def Ry(th):
    c, s_ = math.cos(th / 2), math.sin(th / 2)
    return np.array([[c, -s_], [s_, c]], dtype=complex)


def controlled(u, n_controls=1):
    d = 2 ** (n_controls + 1)
    m = np.eye(d, dtype=complex)
    m[d - 2:, d - 2:] = u
    return m


def PhasedX(t1, t2):
    c, s_ = math.cos(t1 / 2), math.sin(t1 / 2)
    return np.array([[c, -1j * cmath.exp(-1j * t2) * s_], [-1j * cmath.exp(1j * t2) * s_, c]], dtype=complex)


def ZZPhase(th):
    a, b = cmath.exp(-0.5j * th), cmath.exp(0.5j * th)
    return np.diag([a, b, b, a]).astype(complex)


V = np.array([[1, -1j], [-1j, 1]], dtype=complex) * SQ2
VDG = np.array([[1, 1j], [1j, 1]], dtype=complex) * SQ2

GATES1 = {"h": H, "x": X, "y": Y, "z": Z, "s": phase(math.pi / 2), "sdg": phase(-math.pi / 2),
          "t": phase(math.pi / 4), "tdg": phase(-math.pi / 4), "v": V, "vdg": VDG}
GATES2 = {"cx": controlled(X), "cy": controlled(Y), "cz": controlled(Z), "ch": controlled(H),
          "qsystem.zz_max": ZZPhase(math.pi / 2)}
ROT1 = {"rx": Rx, "ry": Ry, "rz": Rz, "qsystem.rz": Rz}


class SV:
    """Big-endian statevector: axis k of the tensor is qubit k."""

    def __init__(self, n):
        self.n = n
        self.t = np.zeros((2,) * n, dtype=complex)
        self.t[(0,) * n] = 1

    def apply(self, u, qs):
        k = len(qs)
        u = u.reshape((2,) * (2 * k))
        self.t = np.tensordot(u, self.t, axes=(list(range(k, 2 * k)), qs))
        self.t = np.moveaxis(self.t, list(range(k)), qs)

    def prob1(self, q):
        return float(np.sum(np.abs(np.take(self.t, 1, axis=q)) ** 2))

    def project(self, q, bit):
        idx = [slice(None)] * self.n
        idx[q] = 1 - bit
        self.t[tuple(idx)] = 0
        nrm = np.linalg.norm(self.t)
        self.t = self.t / nrm

    def vec(self, qs):
        t = np.transpose(self.t, qs + [i for i in range(self.n) if i not in qs])
        return t.reshape(-1)


def plan(tier, seed):
    n = 130 if tier == "quick" else 3000
    return {"n_cases": n, "floors": {"evaluations": n // 3}}


def angle_expr(rng, depth=2):
    """(source, halfturns)"""
    c = rng.randrange(9)
    if depth <= 0 or c < 3:
        k = rng.choice([1, 2, 3, 4, 8])
        if rng.random() < 0.5:
            return (f"pi / {k}", 1.0 / k)
        v_ = rng.choice([0.25, 0.5, -0.75, 1.5, 0.1, 1 / 3, 2.0, -0.3])
        return (f"angle({v_!r})", v_)
    a, av = angle_expr(rng, depth - 1)
    if c == 3:
        b, bv = angle_expr(rng, depth - 1)
        return (f"({a} + {b})", av + bv)
    if c == 4:
        b, bv = angle_expr(rng, depth - 1)
        return (f"({a} - {b})", av - bv)
    if c == 5:
        return (f"(-{a})", -av)
    k = rng.choice([2.0, 0.5, 3.0, -1.5])
    if c == 6:
        return (f"({a} * {k!r})", av * k)
    if c == 7:
        return (f"({k!r} * {a})", k * av)
    return (f"({a} / {k!r})", av / k)


def build(rng):
    nq = rng.randint(1, 3)
    names = [f"q{i}" for i in range(nq)]
    lines = [f"    {n} = qubit()" for n in names]
    sv = SV(nq)
    ops = []  # ("gate", name, qubits, angles) | ("pz", q, tag) | ("reset", q)
    uses = []
    ngates = rng.randint(1, 12)
    with_meas = rng.random() < 0.3
    mcount = 0
    for _ in range(ngates):
        c = rng.random()
        if c < 0.4:
            g = rng.choice(list(GATES1))
            q = rng.randrange(nq)
            if rng.random() < 0.2:
                # the library function as a first-class value (through a higher-order helper or a
                # local variable): same gate, different lowering path
                if rng.random() < 0.5:
                    lines.append(f"    app1({g}, {names[q]})")
                else:
                    lines.append(f"    fv{len(lines)} = {g}")
                    lines.append(f"    fv{len(lines) - 1}({names[q]})")
                uses.append(g + ":as-value")
            else:
                lines.append(f"    {g}({names[q]})")
                uses.append(g)
            ops.append(("u", GATES1[g], [q]))
        elif c < 0.6:
            g = rng.choice(list(ROT1))
            q = rng.randrange(nq)
            a, av = angle_expr(rng)
            if rng.random() < 0.2:
                lines.append(f"    appr({g}, {names[q]}, {a})")
                uses.append(g + ":as-value")
            else:
                lines.append(f"    {g}({names[q]}, {a})")
                uses.append(g)
            ops.append(("u", ROT1[g](av * math.pi), [q]))
        elif c < 0.66:
            q = rng.randrange(nq)
            a, av = angle_expr(rng, 1)
            b, bv = angle_expr(rng, 1)
            lines.append(f"    qsystem.phased_x({names[q]}, {a}, {b})")
            ops.append(("u", PhasedX(av * math.pi, bv * math.pi), [q]))
            uses.append("phased_x")
        elif c < 0.88 and nq >= 2:
            g = rng.choice(list(GATES2) + ["crz", "qsystem.zz_phase"])
            a_, b_ = rng.sample(range(nq), 2)
            order = "asc" if a_ < b_ else "desc"
            if g == "crz":
                a, av = angle_expr(rng)
                lines.append(f"    crz({names[a_]}, {names[b_]}, {a})")
                ops.append(("u", controlled(Rz(av * math.pi)), [a_, b_]))
            elif g == "qsystem.zz_phase":
                a, av = angle_expr(rng)
                lines.append(f"    qsystem.zz_phase({names[a_]}, {names[b_]}, {a})")
                ops.append(("u", ZZPhase(av * math.pi), [a_, b_]))
            else:
                if rng.random() < 0.2:
                    lines.append(f"    app2({g}, {names[a_]}, {names[b_]})")
                else:
                    lines.append(f"    {g}({names[a_]}, {names[b_]})")
                ops.append(("u", GATES2[g], [a_, b_]))
            uses.append(f"{g}:{order}")
        elif c < 0.94 and nq >= 3:
            p = rng.sample(range(nq), 3)
            lines.append(f"    toffoli({names[p[0]]}, {names[p[1]]}, {names[p[2]]})")
            ops.append(("u", controlled(X, 2), p))
            uses.append("toffoli:" + "".join(map(str, p)))
        elif with_meas:
            q = rng.randrange(nq)
            mcount += 1
            lines.append(f"    m{mcount} = project_z({names[q]})" if rng.random() < 0.7 else
                         f"    m{mcount} = appb(project_z, {names[q]})")
            lines.append(f'    result("m{mcount}", m{mcount})')
            ops.append(("pz", q, f"m{mcount}"))
            uses.append("project_z")
            if rng.random() < 0.4:
                lines.append(f"    reset({names[q]})")
                ops.append(("reset", q))
                uses.append("reset")
    lines.append(f'    state_result("s", {", ".join(names)})')
    # final destructive measurement of a subset, the rest discarded
    for i, n in enumerate(names):
        if with_meas and rng.random() < 0.5:
            lines.append(f'    result("f{i}", measure({n}))')
            ops.append(("fm", i, f"f{i}"))
            uses.append("measure")
        else:
            lines.append(f"    discard({n})")
    text = HDR + "@guppy\ndef main() -> None:\n" + "\n".join(lines) + "\n"
    return text, nq, ops, uses


def judge_text(ctx, text, nq, ops, seed):
    from vf import ctx as C

    try:
        ld = ctx.load(text)
        pkg = ld.main.compile()
    except BaseException as e:
        if C.raised_in_harness(e):
            raise
        if C.is_guppy_error(e):
            try:
                msg = ctx.render(e)[:600]
            except Exception:
                msg = repr(e)
            return {"status": "discard", "fp": None, "detail": "guppy rejected: " + msg,
                    "counters": {"guppy_rejected": 1}}
        return {"status": "violated", "fp": "crash", "mech": "C20:compiler-crash:" + C.innermost_repo_frame(e),
                "witness": {"text": text, "error": C.short_tb(e)}}
    out = ctx.emulate(pkg, n_qubits=nq, seed=seed, want_states=True)
    if out.panic:
        return {"status": "violated", "fp": "panic", "mech": "C20:unexpected-panic",
                "witness": {"text": text, "panic": out.panic}}
    results = {t: v for t, v in out.stream() if not str(t).startswith("STATE")}
    sv = SV(nq)
    ngates = 0
    for op in ops:
        if op[0] == "u":
            sv.apply(op[1], list(op[2]))
            ngates += 1
        elif op[0] == "pz":
            bit = int(results[op[2]])
            p1 = sv.prob1(op[1])
            p = p1 if bit else 1 - p1
            if p < 1e-9:
                return {"status": "violated", "fp": "meas", "mech": "C20:impossible-measurement-outcome",
                        "witness": {"text": text, "tag": op[2], "bit": bit, "probability": p}}
            sv.project(op[1], bit)
            sv._last = bit
        elif op[0] == "reset":
            # directly follows project_z of the same qubit: state is the basis state `bit`
            if getattr(sv, "_last", 0) == 1:
                sv.apply(X, [op[1]])
    states = dict(out.states[0]) if out.states else {}
    if "s" not in states:
        raise C.HarnessError("state_result not found in emulator output")
    got = np.asarray(states["s"].as_single_state())
    exp = sv.vec(list(range(nq)))
    ov = abs(np.vdot(exp, got))
    rec = {"counters": {"circuits_emulated": 1, "gates_applied": ngates}}
    if abs(ov - 1) > 1e-9 or abs(np.linalg.norm(got) - 1) > 1e-9:
        rec["status"] = "violated"
        rec["mech"] = "C20:state-differs"
        rec["witness"] = {"text": text, "overlap": float(ov), "expected": [complex(z_) for z_ in exp],
                          "observed": [complex(z_) for z_ in got], "nq": nq, "seed": seed}
        return rec
    # final measurements must be possible outcomes (sequentially projected)
    for op in ops:
        if op[0] == "fm":
            bit = int(results[op[2]])
            p1 = sv.prob1(op[1])
            p = p1 if bit else 1 - p1
            if p < 1e-9:
                rec["status"] = "violated"
                rec["mech"] = "C20:impossible-measurement-outcome"
                rec["witness"] = {"text": text, "tag": op[2], "bit": bit, "probability": p}
                return rec
            sv.project(op[1], bit)
    rec["status"] = "held"
    return rec


def first_bad_gate(ctx, text, nq, ops, uses):
    return None


_CAL = {"done": False}


def calibrate(ctx):
    """state_result order convention: first listed qubit is the most significant one."""
    from vf import ctx as C

    text = (HDR + "@guppy\ndef main() -> None:\n    a = qubit()\n    b = qubit()\n    x(a)\n    h(b)\n    t(b)\n"
            '    state_result("s", a, b)\n    discard(a)\n    discard(b)\n')
    ld = ctx.load(text, "cal")
    out = ctx.emulate(ld.main.compile(), n_qubits=2, want_states=True)
    got = np.asarray(dict(out.states[0])["s"].as_single_state())
    exp = np.array([0, 0, SQ2, SQ2 * cmath.exp(1j * math.pi / 4)])
    if abs(abs(np.vdot(exp, got)) - 1) > 1e-9:
        raise C.HarnessError(f"state_result ordering calibration failed: {got}")
    _CAL["done"] = True


def run_case(ctx, rng, idx, params, tier):
    if not _CAL["done"]:
        calibrate(ctx)
    text, nq, ops, uses = build(rng)
    rec = judge_text(ctx, text, nq, ops, seed=idx + 1)
    if rec["status"] in ("held", "violated"):
        rec["fp"] = hashlib.sha1(repr(sorted(uses)).encode()).hexdigest()[:16]
        rec["sets"] = {"gate_uses": sorted(set(uses))}
        if rec["status"] == "violated" and rec["mech"] == "C20:state-differs":
            # name the gates involved (mechanism key by gate set of the shortest failing circuit is
            # not computed; keep the key generic and list gates in the witness)
            rec["witness"]["gates"] = sorted(set(uses))
        if idx < 2:
            rec["sample"] = {"program": text.split("def main")[1]}
    rec["_ops"] = None
    rec.pop("_ops")
    return rec


def replay(ctx, w):
    # recompute the reference by re-parsing is not possible from text alone; re-run the emulator and
    # compare with the stored expected vector
    from vf import ctx as C

    if "expected" not in w:
        return {"status": "held", "note": "re-run the check"}
    if not _CAL["done"]:
        calibrate(ctx)
    ld = ctx.load(w["text"])
    out = ctx.emulate(ld.main.compile(), n_qubits=w["nq"], seed=w.get("seed", 1), want_states=True)
    got = np.asarray(dict(out.states[0])["s"].as_single_state())
    exp = np.array([complex(z_) for z_ in w["expected"]])
    ov = abs(np.vdot(exp, got))
    return {"status": "held" if abs(ov - 1) < 1e-9 else "violated", "overlap": float(ov)}
