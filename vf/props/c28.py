"""C28 — Emulator configurations are immutable and reproducible.

One compiled program (H; measure — 24 shots) is built once per case; a random history derives a
tree of EmulatorInstance configurations from shared ancestors (with_seed / with_shots /
with_simulator / *_sim / with_shot_offset / with_n_qubits / with_verbose ...) interleaved with run()
calls.  Monitor: every seeded configuration must return the same result list each time it is run,
whatever was derived or run in between, and the option fields of earlier configurations must not
change."""
from __future__ import annotations

import hashlib

LEVEL = "exploration"
LEVEL_TEXT = ("History checking on the real EmulatorInstance API backed by the real selene emulator: "
              "random derivation trees with interleaved runs; a recorded (config id, run index, result "
              "bits) event log is checked offline for run-to-run equality per seeded configuration and "
              "for unchanged option snapshots.")
LEVEL_NOTE = ("Trusted: selene's determinism for a fixed (seed, simulator, shots, offset) — established "
              "per case by running a fresh, never-derived-from configuration twice first (inconclusive "
              "if that already differs).")
TECHNIQUE = "history checker over recorded run/derive events (per-configuration reproducibility + option snapshots)"
RULE = ("histories of 8-16 steps: derive(child of random existing config, random with_* method and "
        "value) | run(random seeded config); root is main.emulator(1) of `h(q); result(measure(q))`; "
        "distinct = distinct (method sequence, parent indices) histories; non-trivial = some config is "
        "run again after another config was derived from it or from a sibling")
FLOORS = {"builder_derivations": 50, "deferred_state_reads": 3, "runs": 60, "reruns_compared": 20, "derivations": 60}

PROG = '''from guppylang import guppy
from guppylang.std.builtins import result
from guppylang.std.quantum import qubit, h, measure

@guppy
def main() -> None:
    q = qubit()
    h(q)
    result("c", measure(q))
'''


def plan(tier, seed):
    n = 32 if tier == "quick" else 480
    return {"n_cases": n, "floors": {"evaluations": n // 2}}


def snapshot(em):
    o = em._options
    return (em.n_qubits, o._shots, o._shot_increment, o._shot_offset, o._seed, o._verbose,
            type(o._simulator).__name__, getattr(o._simulator, "random_seed", None), o._n_processes)


def run_bits(em):
    res = em.run()
    return tuple(int(v) for shot in res.results for _, v in shot.entries)


STATE_PROG = '''from guppylang import guppy
from guppylang.std.builtins import result
from guppylang.std.quantum import qubit, h, measure
from guppylang.std.debug import state_result

@guppy
def main() -> None:
    q = qubit()
    h(q)
    b = measure(q)
    r = qubit()
    if b:
        h(r)
    state_result("s", r)
    result("c", b)
    result("d", measure(r))
'''


def builder_history(rng, counters):
    """EmulatorBuilder derivations: every builder keeps the options it was created with, whatever is
    derived from it (or from a sibling) afterwards."""
    import copy
    from dataclasses import fields
    from pathlib import Path

    from guppylang.emulator import EmulatorBuilder

    def snap(b):
        return {f.name: copy.deepcopy(getattr(b, f.name)) for f in fields(b)}

    builders = [EmulatorBuilder()]
    snaps = [snap(builders[0])]
    hist = []
    viols = []
    for _ in range(rng.randint(5, 12)):
        p = rng.randrange(len(builders))
        m = rng.choice(["with_name", "with_build_dir", "with_verbose", "with_build_arg", "with_build_arg",
                        "with_build_arg"])
        args = {"with_name": [rng.choice(["a", "b", None])], "with_build_dir": [rng.choice([Path("/nonexistent/x"), None])],
                "with_verbose": [rng.random() < 0.5],
                "with_build_arg": [rng.choice(["platform", "strict_names", "opt", "k"]), rng.choice(["helios", 1, True, "x"])]}[m]
        builders.append(getattr(builders[p], m)(*args))
        snaps.append(snap(builders[-1]))
        hist.append((m, p, repr(args)))
        counters["builder_derivations"] = counters.get("builder_derivations", 0) + 1
        for j, b in enumerate(builders):
            if snap(b) != snaps[j]:
                viols.append({"mech": "C28:earlier-builder-changed",
                              "witness": {"builder": j, "at_creation": repr(snaps[j]), "now": repr(snap(b)),
                                          "history": hist[:]}})
                snaps[j] = snap(b)
    return viols


def deferred_states(ctx, rng, counters):
    """Results are values: the states recorded by an earlier run of a seeded configuration must be the
    same whether they are read right away or after other configurations sharing the build were run."""
    import shutil
    import tempfile
    from pathlib import Path

    import numpy as np

    from guppylang.emulator import EmulatorInstance

    from vf.compat import execsub, lower

    ld = ctx.load(STATE_PROG, "stateprog")
    low = lower.lower_package(ld.main.compile())
    bdir = Path(tempfile.mkdtemp(prefix="sel", dir=ctx.tmp))
    viols = []
    try:
        inst = execsub.build_instance(low, build_dir=bdir)
        root = EmulatorInstance(_instance=inst, _n_qubits=2).with_shots(6).statevector_sim()
        a = root.with_seed(rng.randint(1, 50))
        b = root.with_seed(rng.randint(51, 99))

        def states(res):
            out = []
            for shot in res.partial_states():
                for tag, pv in shot:
                    out.append((tag, tuple(np.round(np.asarray(pv.as_single_state()), 6))))
            return out

        ref = states(a.run())              # read immediately
        res_a = a.run()                    # same configuration again, states read later
        bits_a = [tuple(s.entries) for s in res_a.results]
        for _ in range(rng.randint(1, 3)):
            rng.choice([a, b, b]).run()
        late = states(res_a)
        counters["deferred_state_reads"] = counters.get("deferred_state_reads", 0) + 1
        if late != ref:
            viols.append({"mech": "C28:recorded-states-changed-by-later-runs",
                          "witness": {"read_immediately": repr(ref)[:600], "read_after_other_runs": repr(late)[:600],
                                      "classical_results": repr(bits_a)[:300]}})
    finally:
        shutil.rmtree(bdir, ignore_errors=True)
    return viols


def run_case(ctx, rng, idx, params, tier):
    from guppylang.emulator import EmulatorInstance
    from selene_sim.backends.bundled_simulators import Coinflip, Quest, Stim

    from vf import ctx as C
    from vf.compat import execsub, lower

    ld = ctx.load(PROG)
    pkg = ld.main.compile()
    low = lower.lower_package(pkg)
    import tempfile
    from pathlib import Path

    bdir = Path(tempfile.mkdtemp(prefix="sel", dir=ctx.tmp))
    inst = execsub.build_instance(low, build_dir=bdir)
    root = EmulatorInstance(_instance=inst, _n_qubits=1).with_shots(24)
    # calibration: selene itself must be reproducible for a fixed seed
    cal = root.with_seed(12345)
    if run_bits(cal) != run_bits(cal):
        return {"status": "inconclusive", "fp": None, "detail": "selene not reproducible for a fixed seed"}
    configs = [root]          # index -> EmulatorInstance
    snaps = [snapshot(root)]  # option snapshot at creation
    parents = [None]
    seeded_runs: dict[int, tuple] = {}
    events = []
    viols = []
    counters = {"runs": 0, "reruns_compared": 0, "derivations": 0, "snapshots_compared": 0}
    hist = []
    nontrivial = False
    derived_since_run: dict[int, bool] = {}
    for step in range(rng.randint(8, 16)):
        if rng.random() < 0.55 or len(configs) < 3:
            p = rng.randrange(len(configs))
            m = rng.choice(["with_seed", "with_seed", "with_seed", "with_shots", "statevector_sim",
                            "coinflip_sim", "stabilizer_sim", "with_shot_offset", "with_shot_increment",
                            "with_simulator", "with_n_qubits", "with_verbose", "with_n_processes"])
            arg = None
            if m == "with_seed":
                arg = rng.randint(1, 6)
            elif m == "with_shots":
                arg = rng.choice([8, 16, 24])
            elif m == "with_shot_offset":
                arg = rng.randint(0, 5)
            elif m == "with_shot_increment":
                arg = rng.randint(1, 3)
            elif m == "with_simulator":
                arg = rng.choice([Quest, Stim, Coinflip])()
            elif m == "with_n_qubits":
                arg = rng.randint(1, 3)
            elif m == "with_verbose":
                arg = False
            elif m == "with_n_processes":
                arg = 1
            child = getattr(configs[p], m)(*([] if arg is None else [arg]))
            configs.append(child)
            snaps.append(snapshot(child))
            parents.append(p)
            counters["derivations"] += 1
            hist.append((m, p))
            for k in derived_since_run:
                derived_since_run[k] = True
            events.append(("derive", len(configs) - 1, p, m, str(arg)))
        else:
            cands = [i for i, c in enumerate(configs) if c.seed is not None]
            if not cands:
                continue
            i = rng.choice(cands)
            bits = run_bits(configs[i])
            counters["runs"] += 1
            hist.append(("run", i))
            events.append(("run", i, bits))
            if i in seeded_runs:
                counters["reruns_compared"] += 1
                if derived_since_run.get(i):
                    nontrivial = True
                if bits != seeded_runs[i]:
                    viols.append({"mech": "C28:seeded-configuration-not-reproducible",
                                  "witness": {"config": i, "first": seeded_runs[i], "later": bits,
                                              "history": hist[:], "snapshot_at_creation": snaps[i],
                                              "snapshot_now": snapshot(configs[i])}})
            else:
                seeded_runs[i] = bits
            derived_since_run[i] = False
        # option snapshots of every earlier configuration must be unchanged
        for j, c in enumerate(configs):
            counters["snapshots_compared"] += 1
            if snapshot(c) != snaps[j]:
                viols.append({"mech": "C28:earlier-configuration-changed",
                              "witness": {"config": j, "at_creation": snaps[j], "now": snapshot(c),
                                          "history": hist[:]}})
                snaps[j] = snapshot(c)
    import shutil

    shutil.rmtree(bdir, ignore_errors=True)
    viols += builder_history(rng, counters)
    if idx % 4 == 0:
        viols += deferred_states(ctx, rng, counters)
    seen = set()
    uniq = [v for v in viols if not (v["mech"] in seen or seen.add(v["mech"]))]
    rec = {"status": "violated" if uniq else "held",
           "fp": hashlib.sha1(repr(hist).encode()).hexdigest()[:16] if nontrivial or counters["derivations"] > 3 else None,
           "counters": counters}
    if uniq:
        rec["violations"] = uniq
    if idx < 2:
        rec["sample"] = {"history": repr(hist), "events": repr(events[:6])}
    return rec


def replay(ctx, w):
    return {"status": "held", "note": "history witness: re-run `./check C28 --seed <seed>`; history = "
            + repr(w.get("history"))}
