"""C28 — Emulator configurations are immutable and reproducible.

One compiled program (H; measure — 24 shots) is built once per case; a random history derives a
tree of EmulatorInstance configurations from shared ancestors (with_seed / with_shots /
with_simulator / *_sim / with_shot_offset / with_n_qubits / with_verbose ...) interleaved with run()
calls.  Monitor: every seeded configuration must return the same result list each time it is run,
whatever was derived or run in between, and the option fields of earlier configurations must not
change."""
from __future__ import annotations

import hashlib

LEVEL = "exploration"
LEVEL_TEXT = ("History checking on the real EmulatorInstance API backed by the real selene emulator: "
              "random derivation trees with interleaved runs; a recorded (config id, run index, result "
              "bits) event log is checked offline for run-to-run equality per seeded configuration and "
              "for unchanged option snapshots.")
LEVEL_NOTE = ("Trusted: selene's determinism for a fixed (seed, simulator, shots, offset) — established "
              "per case by running a fresh, never-derived-from configuration twice first (inconclusive "
              "if that already differs).")
TECHNIQUE = "history checker over recorded run/derive events (per-configuration reproducibility + option snapshots)"
RULE = ("histories of 8-16 steps: derive(child of random existing config, random with_* method and "
        "value) | run(random seeded config); root is main.emulator(1) of `h(q); result(measure(q))`; "
        "distinct = distinct (method sequence, parent indices) histories; non-trivial = some config is "
        "run again after another config was derived from it or from a sibling")
FLOORS = {"runs": 60, "reruns_compared": 20, "derivations": 60}

PROG = '''from guppylang import guppy
from guppylang.std.builtins import result
from guppylang.std.quantum import qubit, h, measure

@guppy
def main() -> None:
    q = qubit()
    h(q)
    result("c", measure(q))
'''


def plan(tier, seed):
    n = 32 if tier == "quick" else 480
    return {"n_cases": n, "floors": {"evaluations": n // 2}}


def snapshot(em):
    o = em._options
    return (em.n_qubits, o._shots, o._shot_increment, o._shot_offset, o._seed, o._verbose,
            type(o._simulator).__name__, getattr(o._simulator, "random_seed", None), o._n_processes)


def run_bits(em):
    res = em.run()
    return tuple(int(v) for shot in res.results for _, v in shot.entries)


def run_case(ctx, rng, idx, params, tier):
    from guppylang.emulator import EmulatorInstance
    from selene_sim.backends.bundled_simulators import Coinflip, Quest, Stim

    from vf import ctx as C
    from vf.compat import execsub, lower

    ld = ctx.load(PROG)
    pkg = ld.main.compile()
    low = lower.lower_package(pkg)
    import tempfile
    from pathlib import Path

    bdir = Path(tempfile.mkdtemp(prefix="sel", dir=ctx.tmp))
    inst = execsub.build_instance(low, build_dir=bdir)
    root = EmulatorInstance(_instance=inst, _n_qubits=1).with_shots(24)
    # calibration: selene itself must be reproducible for a fixed seed
    cal = root.with_seed(12345)
    if run_bits(cal) != run_bits(cal):
        return {"status": "inconclusive", "fp": None, "detail": "selene not reproducible for a fixed seed"}
    configs = [root]          # index -> EmulatorInstance
    snaps = [snapshot(root)]  # option snapshot at creation
    parents = [None]
    seeded_runs: dict[int, tuple] = {}
    events = []
    viols = []
    counters = {"runs": 0, "reruns_compared": 0, "derivations": 0, "snapshots_compared": 0}
    hist = []
    nontrivial = False
    derived_since_run: dict[int, bool] = {}
    for step in range(rng.randint(8, 16)):
        if rng.random() < 0.55 or len(configs) < 3:
            p = rng.randrange(len(configs))
            m = rng.choice(["with_seed", "with_seed", "with_seed", "with_shots", "statevector_sim",
                            "coinflip_sim", "stabilizer_sim", "with_shot_offset", "with_shot_increment",
                            "with_simulator", "with_n_qubits", "with_verbose", "with_n_processes"])
            arg = None
            if m == "with_seed":
                arg = rng.randint(1, 6)
            elif m == "with_shots":
                arg = rng.choice([8, 16, 24])
            elif m == "with_shot_offset":
                arg = rng.randint(0, 5)
            elif m == "with_shot_increment":
                arg = rng.randint(1, 3)
            elif m == "with_simulator":
                arg = rng.choice([Quest, Stim, Coinflip])()
            elif m == "with_n_qubits":
                arg = rng.randint(1, 3)
            elif m == "with_verbose":
                arg = False
            elif m == "with_n_processes":
                arg = 1
            child = getattr(configs[p], m)(*([] if arg is None else [arg]))
            configs.append(child)
            snaps.append(snapshot(child))
            parents.append(p)
            counters["derivations"] += 1
            hist.append((m, p))
            for k in derived_since_run:
                derived_since_run[k] = True
            events.append(("derive", len(configs) - 1, p, m, str(arg)))
        else:
            cands = [i for i, c in enumerate(configs) if c.seed is not None]
            if not cands:
                continue
            i = rng.choice(cands)
            bits = run_bits(configs[i])
            counters["runs"] += 1
            hist.append(("run", i))
            events.append(("run", i, bits))
            if i in seeded_runs:
                counters["reruns_compared"] += 1
                if derived_since_run.get(i):
                    nontrivial = True
                if bits != seeded_runs[i]:
                    viols.append({"mech": "C28:seeded-configuration-not-reproducible",
                                  "witness": {"config": i, "first": seeded_runs[i], "later": bits,
                                              "history": hist[:], "snapshot_at_creation": snaps[i],
                                              "snapshot_now": snapshot(configs[i])}})
            else:
                seeded_runs[i] = bits
            derived_since_run[i] = False
        # option snapshots of every earlier configuration must be unchanged
        for j, c in enumerate(configs):
            counters["snapshots_compared"] += 1
            if snapshot(c) != snaps[j]:
                viols.append({"mech": "C28:earlier-configuration-changed",
                              "witness": {"config": j, "at_creation": snaps[j], "now": snapshot(c),
                                          "history": hist[:]}})
                snaps[j] = snapshot(c)
    import shutil

    shutil.rmtree(bdir, ignore_errors=True)
    seen = set()
    uniq = [v for v in viols if not (v["mech"] in seen or seen.add(v["mech"]))]
    rec = {"status": "violated" if uniq else "held",
           "fp": hashlib.sha1(repr(hist).encode()).hexdigest()[:16] if nontrivial or counters["derivations"] > 3 else None,
           "counters": counters}
    if uniq:
        rec["violations"] = uniq
    if idx < 2:
        rec["sample"] = {"history": repr(hist), "events": repr(events[:6])}
    return rec


def replay(ctx, w):
    return {"status": "held", "note": "history witness: re-run `./check C28 --seed <seed>`; history = "
            + repr(w.get("history"))}
