"""C16 — Implicit numeric coercions only widen.

All 9 (actual, expected) pairs over nat/int/float x 4 contexts (annotated assignment, argument,
return, operator operand): the real checker must accept exactly the widening pairs; for accepted
pairs the real emulator must deliver the original value (IEEE-nearest for float targets)."""
from __future__ import annotations

import struct

LEVEL = "exploration"
LEVEL_TEXT = ("Exhaustive over the 9 type pairs x 4 contexts for accept/reject (finite), boundary + "
              "random operand values for value preservation on the real emulator.")
LEVEL_NOTE = ("Trusted: Python int/float conversion as reference (IEEE nearest); values not "
              "representable in the target (nat >= 2^63 to int) are not value-checked; adapter + "
              "lowering + installed selene.")
TECHNIQUE = "exhaustive accept/reject table + boundary-value differential testing of converted values"
RULE = ("pairs (actual, expected) in {nat,int,float}^2; contexts: x: E = a / g(a) with g(x: E) / "
        "return a from -> E / b + a with b: E returned as E; 40 values per accepted pair per case from "
        "a boundary set plus random; plus all six comparison operators between operands of two "
        "different numeric types at equal and neighbouring values. The value at the coercion site is produced by "
        "12 kinds of source expression (variable, abs/pos/round/neg/or results, struct field, tuple / array "
        "element, conditional, walrus, user call) and the operand context uses 6-10 operator forms with the "
        "narrower operand on either side. distinct = (pair, context, value class / kind / operand form)")
FLOORS = {"pairs_probed": 36, "values_checked": 100, "comparisons_checked": 100}
ORDER = {"nat": 0, "int": 1, "float": 2}
TYS = ["nat", "int", "float"]
CTXS = ["annassign", "argument", "return", "operand"]
I63, U64 = 2**63, 2**64
VALS = {"nat": [0, 1, 2, 7, 2**31, 2**32 + 1, 2**53, 2**53 + 1, 2**63 - 1, 2**63, 2**64 - 1, 2**64 - 1025],
        "int": [0, 1, -1, 7, -7, 2**31, -(2**31), 2**53 + 1, -(2**53) - 1, 2**62 + 1, 2**63 - 1, -(2**63),
                9007199254740993, -9007199254740993]}
HDR = ("from guppylang import guppy\nfrom guppylang.std.builtins import result, nat, array\n"
       "from guppylang.std.platform import _result_nat\n\n")


def plan(tier, seed):
    n = 16 if tier == "quick" else 400
    return {"n_cases": n, "exhaustive": False, "floors": {"evaluations": n // 2}}


# Source expression kinds: how the value of type `act` is produced at the place where `exp` is expected.
# Every kind is type-preserving (std/num.py: abs/pos/round/neg/or return the operand's type), so the
# accept/reject table does not depend on the kind.  kind -> (template over `a`, types it exists for,
# Python value function)
KINDS = {
    "var": ("a", TYS, lambda v: v),
    "abs": ("abs(a)", TYS, abs),
    "pos": ("(+a)", TYS, lambda v: v),
    "round": ("round(a)", ["nat", "int"], lambda v: v),
    "bitor": ("(a | a)", ["nat", "int"], lambda v: v),
    "neg": ("(-a)", ["int", "float"], lambda v: -v),
    "field": ("W_{act}(a).v", TYS, lambda v: v),
    "tup": ("(a, True)[0]", TYS, lambda v: v),
    "ifexp": ("(a if a == a else a)", TYS, lambda v: v),
    "arr": ("array(a, a)[1]", TYS, lambda v: v),
    "walrus": ("(y := a)", TYS, lambda v: v),
    "call": ("idf_{act}(a)", TYS, lambda v: v),
}
# operand context: `b` has the expected type and is the operator's identity element
OPFORMS = {
    "float": [("b + {e}", "0.0"), ("{e} + b", "0.0"), ("{e} - b", "0.0"), ("{e} * b", "1.0"), ("b * {e}", "1.0"),
              ("{e} / b", "1.0")],
    "int": [("b + {e}", "0"), ("{e} + b", "0"), ("{e} - b", "0"), ("{e} * b", "1"), ("{e} | b", "0"), ("b | {e}", "0"),
            ("{e} ^ b", "0"), ("{e} >> b", "0"), ("{e} << b", "0"), ("{e} // b", "1")],
    "nat": [("b + {e}", "0"), ("{e} + b", "0"), ("{e} | b", "0"), ("b | {e}", "0"), ("{e} ^ b", "0"), ("{e} >> b", "0"),
            ("{e} << b", "0")],
}
HDR += "".join(f"@guppy.struct\nclass W_{t}:\n    v: {t}\n\n@guppy\ndef idf_{t}(a: {t}) -> {t}:\n    return a\n\n"
               for t in TYS)


def fn_src(name, ctx_kind, act, exp, kind="var", opform=0):
    e = KINDS[kind][0].replace("{act}", act)
    if ctx_kind == "annassign":
        return f"@guppy\ndef {name}(a: {act}) -> {exp}:\n    x: {exp} = {e}\n    return x\n\n"
    if ctx_kind == "argument":
        return (f"@guppy\ndef {name}_g(x: {exp}) -> {exp}:\n    return x\n\n"
                f"@guppy\ndef {name}(a: {act}) -> {exp}:\n    return {name}_g({e})\n\n")
    if ctx_kind == "return":
        return f"@guppy\ndef {name}(a: {act}) -> {exp}:\n    return {e}\n\n"
    if ctx_kind == "operand":
        tmpl, ident = OPFORMS[exp][opform % len(OPFORMS[exp])]
        return (f"@guppy\ndef {name}_h(a: {act}, b: {exp}) -> {exp}:\n    return {tmpl.format(e=e)}\n\n"
                f"@guppy\ndef {name}(a: {act}) -> {exp}:\n    return {name}_h(a, {ident})\n\n")
    raise AssertionError


def run_case(ctx, rng, idx, params, tier):
    from vf import ctx as C

    text = [HDR]
    probes = []
    for ck in CTXS:
        for act in TYS:
            for exp in TYS:
                avail = [k for k, (_, tys, _) in KINDS.items() if act in tys and k != "var"]
                for kind in ["var"] + rng.sample(avail, 3):
                    opf = 0 if kind == "var" and rng.random() < 0.5 else rng.randrange(12)
                    name = f"f_{ck}_{act}_{exp}_{kind}"
                    text.append(fn_src(name, ck, act, exp, kind, opf))
                    probes.append((name, ck, act, exp, kind, opf))
    ld = ctx.load("".join(text), "coerce")
    viols = []
    counters = {"pairs_probed": 0, "values_checked": 0}
    cells = set()
    accepted = []
    for name, ck, act, exp, kind, opf in probes:
        counters["pairs_probed"] += 1
        counters["source_kinds_probed"] = counters.get("source_kinds_probed", 0) + (kind != "var")
        want = ORDER[act] <= ORDER[exp]
        opd = OPFORMS[exp][opf % len(OPFORMS[exp])][0].format(e="E") if ck == "operand" else ""
        try:
            getattr(ld.module, name).check()
            got = True
        except BaseException as e:
            if C.raised_in_harness(e):
                raise
            if not C.is_guppy_error(e):
                viols.append({"mech": f"C16:crash:{C.innermost_repo_frame(e)}",
                              "witness": {"context": ck, "actual": act, "expected": exp, "kind": kind,
                                          "source": fn_src(name, ck, act, exp, kind, opf)}})
                continue
            got = False
        cells.add(f"{ck}:{act}->{exp}:{'acc' if got else 'rej'}")
        cells.add(f"kind:{kind}:{ck}:{'widen' if ORDER[act] < ORDER[exp] else 'same' if act == exp else 'narrow'}")
        if opd:
            cells.add(f"operand-form:{opd}:{act}->{exp}")
        if got != want:
            what = "narrowing-accepted" if got else "widening-rejected"
            if kind == "call" and not got and act != exp and ck != "operand":
                mech = "C16:widening-rejected:result-of-user-function-call"
            else:
                mech = f"C16:{what}:{ck}:{act}->{exp}" + ("" if kind == "var" else f":{kind}") \
                    + (f":{opd}" if opd and opf else "")
            viols.append({"mech": mech,
                          "witness": {"context": ck, "actual": act, "expected": exp, "kind": kind,
                                      "source": fn_src(name, ck, act, exp, kind, opf)}})
        elif got and act != "float":
            accepted.append((name, ck, act, exp, kind))
    # value preservation
    calls = []
    plan_ = []
    for name, ck, act, exp, kind in accepted:
        nv = (6, 4) if kind == "var" else (2, 1)
        vs = [rng.choice(VALS[act]) for _ in range(nv[0])] + \
             [rng.randint(0, U64 - 1) if act == "nat" else rng.randint(-I63, I63 - 1) for _ in range(nv[1])]
        for v in vs:
            if kind in ("abs", "neg") and v == -I63:
                continue  # the source expression itself overflows
            pv = KINDS[kind][2](v)
            if exp == "int" and not -I63 <= pv < I63:
                continue  # not representable in the target: not value-checked
            rf = "_result_nat" if exp == "nat" else "result"  # `result` reports nats via its int variant
            calls.append(f'    {rf}("r", {name}({v}))')
            plan_.append((name, ck, act, exp, pv))
    # comparison operands: the narrower operand (either side) is widened to the other's type; the
    # outcome must be Python's for equal and neighbouring values (nat vs negative int excluded:
    # a nat >= 2^63 compared with an int is the known C04 finding and is not generated)
    CMPS = {"eq": "==", "ne": "!=", "lt": "<", "le": "<=", "gt": ">", "ge": ">="}
    cmp_defs = []
    cmp_plan = []
    for t1 in TYS:
        for t2 in TYS:
            if t1 == t2:
                continue
            for cn, op in CMPS.items():
                cmp_defs.append(f"@guppy\ndef c_{cn}_{t1}_{t2}(a: {t1}, b: {t2}) -> bool:\n    return a {op} b\n\n")
            for _ in range(3):
                v = rng.choice([0, 1, 2, 7, 12, 255, 2**31, 2**40 + 3, 2**52 + 1])
                w = v + rng.choice([0, 0, 0, 1, -1]) if v else v + rng.choice([0, 0, 1])
                cn = rng.choice(list(CMPS))
                lit = lambda t, x: (repr(float(x)) if t == "float" else str(x))
                calls.append(f'    result("c", c_{cn}_{t1}_{t2}({lit(t1, v)}, {lit(t2, w)}))')
                cmp_plan.append((cn, t1, t2, v, w))
    main = "".join(text) + "".join(cmp_defs) + "@guppy\ndef main() -> None:\n" + "\n".join(calls) + "\n"
    ld2 = ctx.load(main, "coerce_run")
    try:
        pkg = ld2.main.compile()
    except BaseException as e:
        if C.raised_in_harness(e):
            raise
        viols.append({"mech": "C16:compile-failed:" + (C.innermost_repo_frame(e) if not C.is_guppy_error(e) else "guppy-error"),
                      "witness": {"error": C.short_tb(e)}})
        pkg = None
    if pkg is not None:
        out = ctx.emulate(pkg)
        stream = out.stream()
        for (name, ck, act, exp, v), (_, got) in zip(plan_, stream):
            counters["values_checked"] += 1
            if exp == "float":
                e = float(v)
                ok = isinstance(got, float) and struct.pack(">d", got) == struct.pack(">d", e)
            else:
                e = v
                ok = got == e
            vc = "big" if abs(v) > 2**53 else "small"
            cells.add(f"{ck}:{act}->{exp}:value-{vc}")
            if not ok:
                viols.append({"mech": f"C16:value-changed:{ck}:{act}->{exp}:{vc}",
                              "witness": {"context": ck, "actual": act, "expected_type": exp, "value": v,
                                          "expected": e, "observed": got}})
        import operator as _op

        pyop = {"eq": _op.eq, "ne": _op.ne, "lt": _op.lt, "le": _op.le, "gt": _op.gt, "ge": _op.ge}
        for (cn, t1, t2, v, w), (_, got) in zip(cmp_plan, stream[len(plan_):]):
            counters["comparisons_checked"] = counters.get("comparisons_checked", 0) + 1
            cells.add(f"compare:{cn}:{t1},{t2}")
            if bool(got) != pyop[cn](v, w):
                rel = "equal" if v == w else "neighbour"
                viols.append({"mech": f"C16:comparison-after-widening:{cn}:{t1},{t2}:{rel}",
                              "witness": {"op": cn, "left": [t1, v], "right": [t2, w],
                                          "expected": pyop[cn](v, w), "observed": got}})
        if out.panic or len(stream) != len(plan_) + len(cmp_plan):
            viols.append({"mech": "C16:panic-or-missing-results", "witness": {"panic": out.panic}})
    seen = set()
    uniq = [v for v in viols if not (v["mech"] in seen or seen.add(v["mech"]))]
    rec = {"status": "violated" if uniq else "held", "fp": f"case{idx}", "counters": counters,
           "sets": {"cells": sorted(cells)}}
    if uniq:
        rec["violations"] = uniq[:20]
    if idx == 0:
        rec["sample"] = {"probe": fn_src("f_argument_nat_float", "argument", "nat", "float"),
                         "calls": calls[:5]}
    return rec


def replay(ctx, w):
    from vf import ctx as C

    if "source" not in w:
        return {"status": "held", "note": "value witness: re-run the check"}
    name = w["source"].split("@guppy\ndef ")[-1].split("(")[0]
    ld = ctx.load(HDR + w["source"])
    try:
        getattr(ld.module, name).check()
        got = True
    except BaseException as e:
        got = False if C.is_guppy_error(e) else None
    want = ORDER[w["actual"]] <= ORDER[w["expected"]]
    return {"status": "held" if got == want else "violated", "accepted": got, "expected": want}
