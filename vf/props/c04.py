"""C04 — Numeric operators compute Python's results.

For every operator/builtin x operand type combination Guppy accepts (probed on the real checker),
operands drawn from a boundary set reach the operator through function parameters; results from the
real emulator are compared with O-int: Python's exact result reduced to the result type."""
from __future__ import annotations

import math
import struct

LEVEL = "exploration"
LEVEL_TEXT = ("Boundary-value + random differential testing of every operator/builtin on "
              "int/nat/float/bool against exact Python arithmetic reduced to the 64-bit result type; "
              "type combinations and result types are taken from the real checker by probing. Held on "
              "N operator evaluations over M (operator, types, operand sign class) cells.")
LEVEL_NOTE = ("Trusted: Python arithmetic as reference; IEEE-754 double semantics of the emulator host; "
              "the reduction rule from the statement (int -> two's complement, nat -> mod 2^64). "
              "Undefined cases are never generated: division/modulo by zero, shift counts outside "
              "[0,64), negative integer exponents, float->int out of range, int->nat of negatives, "
              "non-finite float results, int true-division with |operand| > 2^53 (double rounding).")
TECHNIQUE = "boundary-value differential testing against exact integer/IEEE reference arithmetic (reference-model monitor)"
RULE = ("operators + - * / // % ** << >> & | ^, comparisons, unary - + ~, abs, divmod, pow, int(), "
        "float(), nat(), bool(), not; operand types int/nat/float/bool in both positions; values from "
        "a boundary set (0, +-1, +-2, 63, 64, 2^31+-1, 2^32+-1, 2^62, 2^63-1, -2^63, 2^64-1, +-0.5, "
        "+-1.5, 1e300, subnormals) plus random; distinct = (operator, operand types, operand sign "
        "classes) cells observed")
FLOORS = {"operator_evaluations": 500}

I64 = 2**63
U64 = 2**64
INT_VALS = [0, 1, -1, 2, -2, 3, 7, -7, 5, -5, 63, 64, 2**31 - 1, 2**31 + 1, -(2**31), 2**32 - 1,
            2**32 + 1, 2**62, -(2**62), 2**63 - 1, -(2**63), -(2**63) + 1, 1000003, -8, 10]
NAT_VALS = [0, 1, 2, 3, 7, 5, 63, 64, 2**32 - 1, 2**32 + 1, 2**63 - 1, 2**63, 2**64 - 1, 2**64 - 2,
            1000003, 8, 10]
FLOAT_VALS = [0.0, 0.5, -0.5, 1.5, -1.5, 2.0, -2.0, 3.0, 1e300, -1e300, 5e-324, 1e-310,
              2.0**53, 1e15 + 0.5, 0.1, -7.25, 100.0, 63.0, 9.007199254740993e15]
BOOL_VALS = [True, False]
TYPES = ["int", "nat", "float", "bool"]
BINOPS = ["+", "-", "*", "/", "//", "%", "**", "<<", ">>", "&", "|", "^",
          "==", "!=", "<", "<=", ">", ">="]
UNOPS = ["-", "+", "~", "not", "abs", "int", "float", "nat", "bool"]
FUNC2 = ["divmod", "pow"]


def rfn(rty: str) -> str:
    """Reporting function for a result of type `rty`.  The public `result` overload lists its int
    variant before its nat variant, so a nat argument is coerced to int and values >= 2^63 come out
    negative (known finding, keyed under C17); nat results are therefore observed through the nat
    variant directly, which reports them faithfully."""
    return "_result_nat" if rty == "nat" else "result"


def plan(tier, seed):
    n = 96 if tier == "quick" else 2400
    return {"n_cases": n, "floors": {"evaluations": n // 2}}


def vals_for(ty, rng, k):
    base = {"int": INT_VALS, "nat": NAT_VALS, "float": FLOAT_VALS, "bool": BOOL_VALS}[ty]
    out = [rng.choice(base) for _ in range(k)]
    for i in range(k):
        if rng.random() < 0.3:
            if ty == "int":
                out[i] = rng.choice([rng.randint(-100, 100), rng.randint(-I64, I64 - 1)])
            elif ty == "nat":
                out[i] = rng.choice([rng.randint(0, 100), rng.randint(0, U64 - 1)])
            elif ty == "float":
                out[i] = rng.choice([rng.randint(-64, 64) / 8, rng.uniform(-1e6, 1e6)])
    return out


def lit(ty, v):
    if ty == "bool":
        return "True" if v else "False"
    if ty == "float":
        return repr(float(v))
    return str(v)


def reduce(ty, r):
    if ty == "int":
        r &= U64 - 1
        return r - U64 if r >= I64 else r
    if ty == "nat":
        return r % U64
    return r


class Undefined(Exception):
    pass


def py_val(ty, v):
    return v


def expected(op, tys, vals, rty):
    """Python's result for the operands, reduced to result type `rty`. Raises Undefined."""
    a = vals[0]
    b = vals[1] if len(vals) > 1 else None
    ints = all(t in ("int", "nat", "bool") for t in tys)
    if op in ("/",):
        if b == 0:
            raise Undefined
        if ints and (abs(int(a)) > 2**53 or abs(int(b)) > 2**53):
            raise Undefined
        r = a / b
    elif op in ("//", "%"):
        if b == 0:
            raise Undefined
        if not ints and (math.isinf(a) or math.isinf(b)):
            raise Undefined
        r = a // b if op == "//" else a % b
    elif op == "divmod":
        if b == 0:
            raise Undefined
        r = divmod(a, b)
    elif op in ("**", "pow"):
        if ints:
            if b < 0:
                raise Undefined
            if b > 200:
                raise Undefined  # resource bound: ipow is a loop over the exponent
            r = a**b
        else:
            try:
                r = float(a) ** float(b)
            except (OverflowError, ZeroDivisionError) as e:
                raise Undefined from e
            if isinstance(r, complex):
                raise Undefined
    elif op in ("<<", ">>"):
        if not 0 <= b < 64:
            raise Undefined
        r = a << b if op == "<<" else a >> b
    elif op == "+" and b is not None:
        r = a + b
    elif op == "-" and b is not None:
        r = a - b
    elif op == "*":
        r = a * b
    elif op == "&":
        r = a & b
    elif op == "|":
        r = a | b
    elif op == "^":
        r = a ^ b
    elif op in ("==", "!=", "<", "<=", ">", ">="):
        r = {"==": a == b, "!=": a != b, "<": a < b, "<=": a <= b, ">": a > b, ">=": a >= b}[op]
    elif op == "-":
        r = -a
    elif op == "+" and b is None:
        r = +a
    elif op == "~":
        r = ~a
    elif op == "not":
        r = not a
    elif op == "abs":
        r = abs(a)
    elif op == "int":
        if tys[0] == "float":
            if not math.isfinite(a) or not -(2.0**63) <= a < 2.0**63:
                raise Undefined
        r = int(a)
    elif op == "nat":
        if tys[0] == "float":
            if not math.isfinite(a) or not 0 <= a < 2.0**64:
                raise Undefined
        elif a < 0:
            raise Undefined
        r = int(a)
    elif op == "float":
        r = float(a)
    elif op == "bool":
        r = bool(a)
    else:
        raise AssertionError(op)
    if isinstance(r, tuple):
        return tuple(norm(rty, x) for x in r)
    return norm(rty, r)


def norm(rty, r):
    if rty in ("int", "nat"):
        if isinstance(r, float):
            raise Undefined
        return reduce(rty, int(r))
    if rty == "float":
        r = float(r)
        if not math.isfinite(r):
            raise Undefined
        return r
    if rty == "bool":
        return int(bool(r))
    raise AssertionError(rty)


def sign_class(ty, v):
    if ty == "bool":
        return "b"
    if ty == "float":
        return "f-" if math.copysign(1, v) < 0 else "f+"
    if v < 0:
        return "neg"
    if ty == "nat" and v >= I64:
        return "big"
    return "zero" if v == 0 else "pos"


def classify(op, tys, row, rty, scs):
    """Mechanism key of a mismatch, by operator family and operand class (never by value)."""
    big_nat = any(t == "nat" and v >= I64 for t, v in zip(tys, row))
    mixed = len(set(tys)) > 1
    if big_nat and mixed and "int" in tys:
        return "C04:nat-operand>=2^63-coerced-to-negative-int"
    if op in ("//", "%", "divmod") and rty == "int" and len(row) > 1 and row[1] < 0:
        return "C04:int-floordiv-mod-negative-divisor"
    if op == "abs" and tys[0] == "int" and row[0] == -I64:
        return "C04:int-abs-of-minimum-int"
    if op == ">>" and tys[0] == "int" and row[0] < 0:
        return "C04:int-rshift-negative-lhs"
    return f"C04:{tys[0]}.{op}({','.join(tys)}):{scs}"


def expr_src(op, names):
    if op in BINOPS and len(names) == 2:
        return f"{names[0]} {op} {names[1]}"
    if op in ("divmod", "pow"):
        return f"{op}({names[0]}, {names[1]})"
    if op in ("-", "+", "~"):
        return f"{op}{names[0]}"
    if op == "not":
        return f"not {names[0]}"
    return f"{op}({names[0]})"


HDR = ("from guppylang import guppy\n"
       "from guppylang.std.builtins import result, nat\n"
       "from guppylang.std.platform import _result_nat\n\n")


def feq(a, b):
    return struct.pack(">d", a) == struct.pack(">d", b)


def run_case(ctx, rng, idx, params, tier):
    from vf import ctx as C

    # 1. choose combos
    combos = []
    for _ in range(26):
        kind = rng.random()
        if kind < 0.7:
            op = rng.choice(BINOPS)
            tys = [rng.choice(TYPES), rng.choice(TYPES)]
            if rng.random() < 0.5:
                tys[1] = tys[0]
        elif kind < 0.9:
            op = rng.choice(UNOPS)
            tys = [rng.choice(TYPES)]
        else:
            op = rng.choice(FUNC2)
            t = rng.choice(["int", "nat", "float"])
            tys = [t, t if rng.random() < 0.7 else rng.choice(["int", "nat", "float"])]
        if "float" in tys and op in ("//", "%", "divmod"):
            continue  # arithmetic.float.ffloor has no lowering in the installed QIS compiler
        if tys == ["float"] and op == "abs":
            continue  # arithmetic.float.fabs: same
        if (op, tuple(tys)) not in [(c[0], tuple(c[1])) for c in combos]:
            combos.append((op, tys))
    # 2. probe acceptance and result type on the real checker
    probe = [HDR]
    for k, (op, tys) in enumerate(combos):
        ps = ", ".join(f"a{i}: {t}" for i, t in enumerate(tys))
        ex = expr_src(op, [f"a{i}" for i in range(len(tys))])
        if op == "divmod":
            for rt in ("nat", "int", "float"):
                probe.append(f"@guppy\ndef p{k}_{rt}({ps}) -> tuple[{rt}, {rt}]:\n    return {ex}\n\n")
        else:
            for rt in ("nat", "int", "float", "bool"):
                probe.append(f"@guppy\ndef p{k}_{rt}({ps}) -> {rt}:\n    return {ex}\n\n")
    ld = ctx.load("".join(probe), "probe")
    accepted = []
    sets = {"accepted_combos": [], "rejected_combos": []}
    for k, (op, tys) in enumerate(combos):
        rty = None
        for rt in ("nat", "int", "float", "bool"):
            d = getattr(ld.module, f"p{k}_{rt}", None)
            if d is None:
                continue
            try:
                d.check()
                rty = rt
                break
            except BaseException as e:
                if not C.is_guppy_error(e):
                    if C.raised_in_harness(e):
                        raise
                    return {"status": "violated", "fp": "crash", "mech": "C04:checker-crash:" + C.innermost_repo_frame(e),
                            "witness": {"op": op, "types": tys, "error": C.short_tb(e)}}
        name = f"{op}({','.join(tys)})"
        if rty is None:
            sets["rejected_combos"].append(name)
        else:
            sets["accepted_combos"].append(f"{name}->{rty}")
            accepted.append((k, op, tys, rty))
    if not accepted:
        return {"status": "discard", "fp": None, "detail": "no accepted combo", "sets": sets}
    # 3. the measured program
    text = [HDR]
    calls = []
    plan_ = []
    for k, op, tys, rty in accepted:
        ps = ", ".join(f"a{i}: {t}" for i, t in enumerate(tys))
        ex = expr_src(op, [f"a{i}" for i in range(len(tys))])
        if op == "divmod":
            text.append(f"@guppy\ndef f{k}({ps}) -> None:\n    q, r = {ex}\n"
                        f"    {rfn(rty)}(\"q{k}\", q)\n    {rfn(rty)}(\"r{k}\", r)\n\n")
        else:
            text.append(f"@guppy\ndef f{k}({ps}) -> None:\n    {rfn(rty)}(\"v{k}\", {ex})\n\n")
        cols = [vals_for(t, rng, 12) for t in tys]
        for row in zip(*cols):
            try:
                exp = expected(op, tys, list(row), rty)
            except Undefined:
                continue
            calls.append(f"    f{k}({', '.join(lit(t, v) for t, v in zip(tys, row))})")
            plan_.append((k, op, tys, rty, list(row), exp))
    if not plan_:
        return {"status": "discard", "fp": None, "detail": "all undefined", "sets": sets}
    text.append("@guppy\ndef main() -> None:\n" + "\n".join(calls) + "\n")
    text = "".join(text)
    try:
        ld2 = ctx.load(text, "meas")
        pkg = ld2.main.compile()
    except BaseException as e:
        if C.raised_in_harness(e):
            raise
        if C.is_guppy_error(e):
            try:
                msg = ctx.render(e)[:800]
            except Exception:
                msg = repr(e)
            # an operand literal rejected (e.g. literal range): C17's business — discard
            return {"status": "discard", "fp": None, "detail": "guppy rejected measured program: " + msg,
                    "counters": {"measured_program_rejected": 1}, "sets": sets}
        return {"status": "violated", "fp": "crash", "mech": "C04:compiler-crash:" + C.innermost_repo_frame(e),
                "witness": {"text": text, "error": C.short_tb(e)}}
    out = ctx.emulate(pkg)
    stream = out.stream()
    pos = 0
    viols = []
    cells = set()
    n_eval = 0
    for k, op, tys, rty, row, exp in plan_:
        need = 2 if op == "divmod" else 1
        if pos + need > len(stream):
            viols.append({"mech": classify(op, tys, row, rty, "panic-or-missing-result"),
                          "witness": {"op": op, "types": tys, "operands": row, "expected": exp,
                                      "panic": out.panic, "text_tail": calls[-3:]}})
            break
        got = [stream[pos + i][1] for i in range(need)]
        pos += need
        got_n = [int(g) if isinstance(g, bool) else g for g in got]
        exp_l = list(exp) if isinstance(exp, tuple) else [exp]
        ok = True
        for g, e in zip(got_n, exp_l):
            if rty == "float":
                if op in ("**", "pow"):
                    ok &= (g == e) or abs(g - e) <= 1e-12 * max(abs(e), 1e-300)
                elif e == 0.0:
                    ok &= isinstance(g, float) and g == 0.0  # sign of zero is lost downstream
                else:
                    ok &= isinstance(g, float) and feq(g, e)
            else:
                ok &= (g == e)
        n_eval += 1
        scs = "/".join(sign_class(t, v) for t, v in zip(tys, row))
        cells.add(f"{op}({','.join(tys)}):{scs}")
        if not ok:
            viols.append({"mech": classify(op, tys, row, rty, scs),
                          "witness": {"op": op, "types": tys, "result_type": rty, "operands": row,
                                      "expected": exp_l, "observed": got_n}})
    if out.panic is not None and not viols:
        viols.append({"mech": "C04:unexpected-panic", "witness": {"panic": out.panic, "text": text}})
    # dedupe by mechanism inside one case
    seen = set()
    uniq = []
    for v in viols:
        if v["mech"] not in seen:
            seen.add(v["mech"])
            uniq.append(v)
    sets["cells"] = sorted(cells)
    rec = {"status": "violated" if uniq else "held",
           "fp": "|".join(sorted(f"{op}{tys}" for _, op, tys, _ in accepted))[:200],
           "counters": {"operator_evaluations": n_eval}, "sets": sets}
    if uniq:
        rec["violations"] = uniq[:40]
    if idx < 2:
        rec["sample"] = {"combos": sets["accepted_combos"][:10],
                         "example_calls": calls[:5]}
    return rec


def replay(ctx, w):
    """Re-run one (op, types, operands) observation."""
    from vf import ctx as C

    op, tys, row, rty = w["op"], w["types"], w["operands"], w.get("result_type", "int")
    ps = ", ".join(f"a{i}: {t}" for i, t in enumerate(tys))
    ex = expr_src(op, [f"a{i}" for i in range(len(tys))])
    if op == "divmod":
        body = f"    q, r = {ex}\n    {rfn(rty)}(\"q\", q)\n    {rfn(rty)}(\"r\", r)\n"
    else:
        body = f"    {rfn(rty)}(\"v\", {ex})\n"
    text = (HDR + f"@guppy\ndef f({ps}) -> None:\n{body}\n@guppy\ndef main() -> None:\n"
            f"    f({', '.join(lit(t, v) for t, v in zip(tys, row))})\n")
    ld = ctx.load(text)
    out = ctx.emulate(ld.main.compile())
    got = [int(v) if isinstance(v, bool) else v for _, v in out.stream()]
    exp = expected(op, tys, row, rty)
    exp_l = list(exp) if isinstance(exp, tuple) else [exp]
    return {"status": "held" if got == exp_l else "violated", "expected": exp_l, "observed": got,
            "panic": out.panic}
