"""C07 — Borrowed arguments reflect the callee's in-place updates.

Call-graph generator: callees mutate borrowed arrays, array fields of borrowed structs and qubits
(X/CX only: classical reversible, so measurement is deterministic) and re-lend them to other
callees; the caller lends variables, struct fields, tuple elements and array elements and reports
everything afterwards.  Oracle: CPython with reference semantics (lists, objects, 1-bit qubits)."""
from __future__ import annotations

import hashlib

from vf.gen import opy

LEVEL = "exploration"
LEVEL_TEXT = ("Differential execution on the real emulator vs CPython reference semantics for generated "
              "call graphs with in-place updates through borrowed parameters (nested borrows, struct "
              "fields, tuple and array elements, qubits). Held on N programs / M lending shapes.")
LEVEL_NOTE = ("Trusted: CPython reference semantics for mutable objects; the 1-bit qubit model is exact "
              "for X/CX circuits on basis states; adapter + lowering; installed selene (statevector).")
TECHNIQUE = "differential execution against CPython reference semantics (result-stream monitor) on generated borrow call graphs"
RULE = ("3-5 callees with 1-3 borrowed parameters of types array[int,3], struct{xs: array[int,3], k: "
        "int}, qubit, plus an int; bodies of 2-5 ops: element assignment / augmented assignment, "
        "field-array element assignment, X, CX, loops, conditionals, calls to earlier callees "
        "(re-lending own parameters and fields); caller performs 4-8 calls lending variables, s.xs, "
        "copyable struct fields / tuple elements / int array elements through the borrowing generic "
        "mem_swap interleaved with whole reads, t[k], m[k], m3[i][j] (also with a stateful row index), whole tuples of arrays, qs[k] with distinct initial contents and reports all state. distinct = distinct "
        "(callee op kinds, lent place kinds) sequences")
FLOORS = {"programs_emulated": 10, "borrowing_calls": 50}

HEADER = '''from guppylang import guppy
from guppylang.std.builtins import result, array, owned
from guppylang.std.quantum import qubit, x, cx, measure, discard
from guppylang.std.mem import mem_swap

@guppy.struct
class PC:
    a: int
    b: int

@guppy
def showp(p: PC) -> None:
    result("pa", p.a)
    result("pb", p.b)

@guppy
def showt(t: tuple[int, int]) -> None:
    result("ta", t[0])
    result("tb", t[1])

@guppy.struct
class S:
    xs: array[int, 3]
    k: int

@guppy
def tick(c: array[int, 1]) -> int:
    c[0] += 1
    return (c[0] - 1) % 2

'''


class Q:
    def __init__(self):
        self.b = 0


def _x(q):
    q.b ^= 1


def _cx(a, b):
    b.b ^= a.b


def _measure(q):
    return bool(q.b)


PY_ENV = {"qubit": Q, "x": _x, "cx": _cx, "measure": _measure, "discard": lambda q: None}


def plan(tier, seed):
    n = 200 if tier == "quick" else 5000
    return {"n_cases": n, "floors": {"evaluations": n // 3}}


class G:
    def __init__(self, rng):
        self.r = rng
        self.callees = []  # (name, [(pname, ty)], kinds)
        self.kinds = []
        self.ncalls = 0

    def int_expr(self, arrs, depth=1):
        r = self.r
        c = r.randrange(5)
        if c == 0 or not arrs and c < 3:
            return str(r.randint(1, 9))
        if c == 1:
            return "v"
        if c == 2 and arrs:
            return f"{r.choice(arrs)}[{r.randrange(3)}]"
        if depth > 0:
            return f"({self.int_expr(arrs, depth - 1)} {r.choice(['+', '-', '*'])} {self.int_expr(arrs, depth - 1)})"
        return "v"

    def callee(self, k):
        r = self.r
        nparams = r.randint(1, 3)
        pool = ["A", "A", "S", "Q", "Q", "T"]
        tys = sorted(r.sample(pool, nparams))
        params = []
        for i, t in enumerate(tys):
            params.append((f"{t.lower()}{i}", t))
        sig = ", ".join(f"{n}: " + {"A": "array[int, 3]", "S": "S", "Q": "qubit",
                                   "T": "tuple[array[int, 3], array[int, 3]]"}[t] for n, t in params)
        name = f"cal{k}"
        lines = [f"@guppy\ndef {name}({sig}, v: int) -> None:"]
        arr_places = [n for n, t in params if t == "A"] + [f"{n}.xs" for n, t in params if t == "S"] + \
            [f"{n}[{j}]" for n, t in params if t == "T" for j in (0, 1)]
        qs = [n for n, t in params if t == "Q"]
        kinds = []
        for _ in range(r.randint(2, 5)):
            c = r.randrange(8)
            if c <= 1 and arr_places:
                p = r.choice(arr_places)
                lines.append(f"    {p}[{r.randrange(3)}] = {self.int_expr(arr_places)}")
                kinds.append("set" if "." not in p else "field_set")
            elif c == 2 and arr_places:
                p = r.choice(arr_places)
                lines.append(f"    {p}[{r.randrange(3)}] {r.choice(['+', '-', '*'])}= {self.int_expr(arr_places)}")
                kinds.append("aug" if "." not in p else "field_aug")
            elif c == 3 and qs:
                if len(qs) == 2 and r.random() < 0.6:
                    a, b = r.sample(qs, 2)
                    lines.append(f"    cx({a}, {b})")
                    kinds.append("cx")
                else:
                    lines.append(f"    x({r.choice(qs)})")
                    kinds.append("x")
            elif c == 4 and arr_places:
                p = r.choice(arr_places)
                lines.append(f"    for i in range(3):\n        {p}[i] += i * v")
                kinds.append("loop")
            elif c == 5 and arr_places:
                p = r.choice(arr_places)
                lines.append(f"    if v > {r.randint(0, 6)}:\n        {p}[{r.randrange(3)}] = {self.int_expr(arr_places)}")
                kinds.append("cond")
            elif c >= 6 and self.callees:
                cal = r.choice(self.callees)
                args = self.pick_args(cal[1], {"A": arr_places, "S": [n for n, t in params if t == "S"],
                                               "Q": qs, "T": [n for n, t in params if t == "T"]})
                if args is not None:
                    lines.append(f"    {cal[0]}({', '.join(args)}, {self.int_expr([], 0)})")
                    kinds.append("relend")
        if len(lines) == 1:
            lines.append("    pass")
        self.callees.append((name, params, kinds))
        self.kinds.append(tuple(kinds))
        return "\n".join(lines) + "\n\n"

    def pick_args(self, params, avail):
        """Distinct, non-overlapping places for the borrowed parameters of one call."""
        used_roots = set()
        args = []
        for _, t in params:
            cands = [p for p in avail.get(t, []) if self.root(p) not in used_roots]
            if not cands:
                return None
            p = self.r.choice(cands)
            used_roots.add(self.root(p))
            args.append(p)
        return args

    @staticmethod
    def root(p):
        return p.split(".")[0].split("[")[0]

    def main(self):
        r = self.r
        primes = [2, 3, 5, 7, 11, 13, 17, 19, 23, 29, 31, 37, 41, 43, 47, 53, 59, 61, 67, 71, 73, 79, 83, 89,
                  97, 101, 103, 107, 109, 113, 127, 131, 137, 139, 149, 151, 157, 163, 167, 173, 179, 181]
        r.shuffle(primes)
        it = iter(primes)

        def arr():
            return f"array({next(it)}, {next(it)}, {next(it)})"

        lines = ["@guppy", "def main() -> None:",
                 f"    a0 = {arr()}", f"    a1 = {arr()}",
                 f"    s0 = S({arr()}, 5)",
                 f"    t0 = ({arr()}, {arr()})",
                 f"    m0 = array({arr()}, {arr()})",
                 f"    t1 = ({arr()}, {arr()})",
                 f"    m3 = array(array({arr()}, {arr()}), array({arr()}, {arr()}))",
                 "    ctr = array(0)",
                 "    q0 = qubit()", "    q1 = qubit()", "    qs = array(qubit(), qubit())"]
        avail = {"A": ["a0", "a1", "s0.xs", "t0[0]", "t0[1]", "m0[0]", "m0[1]", "t1[0]", "m3[0][1]", "m3[1][0]",
                       "m3[tick(ctr)][0]", "m3[tick(ctr)][1]"], "S": ["s0"],
                 "Q": ["q0", "q1", "qs[0]", "qs[1]"], "T": ["t0", "t1", "t1"]}
        lent = []
        lines += ["    pc = PC(3, 4)", "    tc = (5, 6)"]
        # borrowed *copyable* leaves (through the generic, borrowing mem_swap), interleaved with
        # reads of the whole struct / tuple: every read must see the swaps done so far
        for _ in range(r.randint(0, 4)):
            lines.append("    " + r.choice(["mem_swap(pc.a, pc.b)", "mem_swap(tc[0], tc[1])", "showp(pc)", "showt(tc)",
                                            "mem_swap(a0[0], a0[2])", "mem_swap(a1[1], a1[0])",
                                            "mem_swap(s0.xs[0], s0.xs[1])", "mem_swap(pc.a, tc[1])"]))
            lent.append("copyable-leaf-swap" if "mem_swap" in lines[-1] else "whole-read")
        for _ in range(r.randint(4, 8)):
            cal = r.choice(self.callees)
            args = self.pick_args(cal[1], avail)
            if args is None:
                continue
            lines.append(f"    {cal[0]}({', '.join(args)}, {r.randint(1, 9)})")
            self.ncalls += 1
            lent += [("nested-elem-stateful-index" if "tick" in a else "nested-elem" if a.count("[") == 2 else
                      "elem" if "[" in a else "field" if "." in a else
                      "whole-tuple" if a.startswith("t") else "var") for a in args]
        lines += ["    showp(pc)", "    showt(tc)", '    result("pca", pc.a)', '    result("tc1", tc[1])']
        for v in ("a0", "a1"):
            lines.append(f'    result("{v}", {v})')
        lines += ['    result("s0xs", s0.xs)', '    result("s0k", s0.k)',
                  '    result("t00", t0[0])', '    result("t01", t0[1])',
                  '    result("m00", m0[0])', '    result("m01", m0[1])',
                  '    result("t10", t1[0])', '    result("t11", t1[1])',
                  '    result("m300", m3[0][0])', '    result("m301", m3[0][1])',
                  '    result("m310", m3[1][0])', '    result("m311", m3[1][1])', '    result("ctr", ctr[0])',
                  '    result("q0", measure(q0))', '    result("q1", measure(q1))',
                  "    qa, qb = qs", '    result("qs0", measure(qa))', '    result("qs1", measure(qb))']
        self.lent = lent
        return "\n".join(lines) + "\n"


def build(rng):
    g = G(rng)
    text = HEADER
    for k in range(rng.randint(3, 5)):
        text += g.callee(k)
    text += g.main()
    fp = hashlib.sha1(repr((g.kinds, g.lent)).encode()).hexdigest()[:16]
    return text, fp, g


def judge_text(ctx, text, fp, ncalls=0):
    from vf import ctx as C

    try:
        # CPython cannot swap through value arguments: the oracle executes `mem_swap(A, B)` as the
        # simultaneous assignment `A, B = B, A`, which is what the borrowing swap means
        import re as _re

        otext = _re.sub(r"^(\s*)mem_swap\((.+?), (.+?)\)\s*$", r"\1\2, \3 = \3, \2", text, flags=_re.M)
        otext = otext.replace("from guppylang.std.mem import mem_swap\n", "").replace("    tc = (5, 6)", "    tc = [5, 6]")
        exp, exp_panic = opy.run_source(otext, extra_env=PY_ENV)
    except (opy.OutOfDomain, opy.StepLimit) as e:
        return {"status": "discard", "fp": None, "detail": f"oracle: {e}",
                "counters": {"discard_out_of_domain": 1}}
    try:
        ld = ctx.load(text)
        pkg = ld.main.compile()
    except BaseException as e:
        if C.raised_in_harness(e):
            raise
        if C.is_guppy_error(e):
            try:
                msg = ctx.render(e)[:700]
            except Exception:
                msg = repr(e)
            return {"status": "discard", "fp": None, "detail": "guppy rejected: " + msg,
                    "counters": {"guppy_rejected": 1},
                    "sets": {"reject_titles": [str(getattr(getattr(e, "error", None), "title", "?"))]}}
        return {"status": "discard", "fp": None, "detail": "compiler crash " + C.innermost_repo_frame(e),
                "counters": {"compiler_crash": 1}}
    out = ctx.emulate(pkg, n_qubits=6)
    got = [(t, opy.norm_value(v)) for t, v in out.stream()]
    rec = {"fp": fp, "counters": {"programs_emulated": 1, "borrowing_calls": ncalls}}
    if got == exp and out.panic is None:
        rec["status"] = "held"
    else:
        rec["status"] = "violated"
        bad = [te for (te, ve), (tg, vg) in zip(exp, got) if (te, ve) != (tg, vg)]
        what = "panic" if out.panic else ("place:" + (bad[0] if bad else "length"))
        kind = {"a": "variable", "s": "struct-field", "t": "tuple-element", "m": "array-element",
                "q": "qubit"}.get(what.split(":")[1][0], "?") if ":" in what else "panic"
        rec["mech"] = f"C07:update-lost-or-wrong:{kind}"
        rec["witness"] = {"text": text, "expected": exp, "observed": got, "panic": out.panic}
    return rec


def run_case(ctx, rng, idx, params, tier):
    text, fp, g = build(rng)
    rec = judge_text(ctx, text, fp, g.ncalls)
    if rec["status"] in ("held", "violated"):
        rec["sets"] = {"lent_place_kinds": sorted(set(g.lent)),
                       "callee_op_kinds": sorted({k for ks in g.kinds for k in ks})}
        if idx < 2:
            rec["sample"] = {"program": text}
    return rec


def replay(ctx, w):
    return judge_text(ctx, w["text"], "replay")
