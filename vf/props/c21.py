"""C21 — Comptime functions agree with regular Guppy functions.

One generated body text is compiled twice — decorated with @guppy and with @guppy.comptime — and
both are run on the real emulator with the same arguments.  Bodies report the value of every
binary/unary operator with operands (traced, traced), (traced, const), (const, traced), of
int()/float()/len(), of tuple/array/struct construction and access, and of calls to Guppy functions
including borrowing ones.  Oracle: equal result streams, statement by statement."""
from __future__ import annotations

import hashlib
import re

LEVEL = "exploration"
LEVEL_TEXT = ("Self-differential execution on the real emulator: the same body as @guppy and as "
              "@guppy.comptime must report the same values; generated over every operator x operand "
              "position class plus container and call shapes.")
LEVEL_NOTE = ("Trusted: the regular-mode result as the reference (its own agreement with Python is C04's "
              "business); statements that only one mode accepts are outside 'operations available in "
              "both modes' and are discarded, not judged. Operand values avoid C04's known deviations "
              "(negative divisors / negative shift operands) so a difference is attributable to tracing.")
TECHNIQUE = "self-differential execution (comptime vs regular compilation of one body) with a per-statement stream monitor"
RULE = ("bodies of 10-16 result statements over traced int/float/bool parameters and Python constants: "
        "binary ops + - * // % ** << >> & | ^, comparisons, unary - ~, int()/float()/len(), tuple/"
        "array/struct construction and projection, calls to @guppy helpers (pure, one mutating a "
        "borrowed array parameter, and ones mutating arrays / structs / tuples built inside the body "
        "from constants and traced values, lent repeatedly). distinct = (operator, operand-position class) cells")
FLOORS = {"statements_compared": 150, "programs_emulated": 10}

HELPERS = '''from guppylang import guppy
from guppylang.std.builtins import result, array, owned
from guppylang.std.mem import mem_swap

@guppy.struct
class P:
    a: int
    b: float

@guppy
def add3(a: int, b: int, c: int) -> int:
    return a * 100 + b * 10 + c

@guppy
def bump(xs: array[int, 3], k: int) -> None:
    xs[1] = xs[1] + k

@guppy
def bump0(xs: array[int, 3], k: int) -> None:
    xs[0] = xs[0] + k

@guppy
def fsum(a: float, b: float) -> float:
    return a + b

@guppy
def bump_o3(xs: array[int, 3], k: int) -> None:
    xs[2] = xs[2] + k

@guppy
def bump_o2(xs: array[int, 2], k: int) -> None:
    xs[0] = xs[0] + k

@guppy.overload(bump_o2, bump_o3)
def bump_ov(): ...

@guppy
def selb(c: bool, a: int, b: int) -> int:
    if c:
        return a
    return b

@guppy.struct
class S:
    xs: array[int, 3]
    k: int

@guppy
def bump_s(s: S) -> None:
    s.xs[0] = s.xs[0] + s.k

@guppy
def bump_t(t: tuple[array[int, 3], int]) -> None:
    t[0][2] = t[0][2] + t[1]

'''
BINOPS = ["+", "-", "*", "//", "%", "**", "<<", ">>", "&", "|", "^"]
CMPS = ["<", "<=", ">", ">=", "==", "!="]


def plan(tier, seed):
    n = 100 if tier == "quick" else 2500
    return {"n_cases": n, "floors": {"evaluations": n // 3}}


def gen_stmt(rng, k):
    """(statement source, cell)"""
    c = rng.random()
    tr_i = ["x", "y"]
    if c < 0.45:
        op = rng.choice(BINOPS)
        pos = rng.choice(["tt", "tc", "ct"])
        small = op in ("**", "<<", ">>")
        const = str(rng.randint(1, 3) if small else rng.randint(1, 9))
        a, b = {"tt": ("x", "y"), "tc": (rng.choice(tr_i), const), "ct": (const, rng.choice(tr_i))}[pos]
        if op in ("//", "%") and pos == "tt":
            b = "y"  # y is positive
        return f'result("r{k}", {a} {op} {b})', f"{op}:{pos}"
    if c < 0.6:
        op = rng.choice(CMPS)
        pos = rng.choice(["tt", "tc", "ct"])
        const = str(rng.randint(0, 9))
        a, b = {"tt": ("x", "y"), "tc": ("x", const), "ct": (const, "y")}[pos]
        return f'result("r{k}", {a} {op} {b})', f"{op}:{pos}"
    if c < 0.7:
        op = rng.choice(["+", "-", "*", "/"])
        pos = rng.choice(["tt", "tc", "ct", "mixed", "mixed_r", "cf_ti", "ti_cf", "ci_tf", "tf_ci"])
        const = rng.choice(["0.5", "2.0", "1.5"])
        ci = str(rng.randint(1, 9))
        a, b = {"tt": ("f", "g"), "tc": ("f", const), "ct": (const, "g"), "mixed": ("x", "f"),
                "mixed_r": ("f", "y"), "cf_ti": (const, "y"), "ti_cf": ("x", const),
                "ci_tf": (ci, "g"), "tf_ci": ("f", ci)}[pos]
        return f'result("r{k}", {a} {op} {b})', f"f{op}:{pos}"
    if c < 0.76:
        op = rng.choice(["-", "~", "+"])
        return f'result("r{k}", {op}x)', f"unary{op}"
    if c < 0.82:
        fn = rng.choice(["int(f)", "float(x)", "int(b)", "len(xs)", "abs(x - 40)"])
        return f'result("r{k}", {fn})', "builtin:" + fn.split("(")[0]
    if c < 0.88:
        v = rng.choice(["t = (x, f)\n    result(\"r{k}\", t[0])", "t = (x, (y, b))\n    result(\"r{k}\", t[1][0])",
                        "ys = array(x, y, 7)\n    result(\"r{k}\", ys[1])",
                        "ys = array(x, y, 7)\n    result(\"r{k}\", ys)",
                        "p = P(x, f)\n    result(\"r{k}\", p.a)", "p = P(y, g)\n    result(\"r{k}\", p.b)"])
        return v.replace("{k}", str(k)), "container:" + v.split(" = ")[1].split("(")[0]
    if c < 0.915:
        # literal call arguments of equal value but different type (3 / 3.0, 1 / True) in one body
        n_ = rng.randint(0, 3)
        v = rng.choice([f'result("r{{k}}", add3({n_}, x, {rng.randint(0, 3)}))', f'result("r{{k}}", fsum({n_}.0, f))',
                        f'result("r{{k}}", fsum(f, {n_}.0))', f'result("r{{k}}", selb({rng.choice(["True", "False"])}, x, y))',
                        f'result("r{{k}}", {n_}.0)', f'result("r{{k}}", {n_})'])
        return v.replace("{k}", str(k)), "call:literal-" + ("float" if ".0" in v else ("bool" if "selb" in v else "int"))
    if c < 0.95:
        v = rng.choice(['result("r{k}", add3(x, y, 5))', 'result("r{k}", add3(1, x, y))',
                        'result("r{k}", fsum(f, 0.25))', 'result("r{k}", add3(x, add3(y, 1, 2), 3))'])
        return v.replace("{k}", str(k)), "call:pure"
    if c < 0.96:
        return f'bump(xs, x)\n    result("r{k}", xs)', "call:borrow-mutate"
    if c < 0.965:
        # the borrowing callee is an overload set: the argument must be handed back all the same
        return f'bump_ov(xs, x)\n    bump_ov(xs, 1)\n    result("r{k}", xs)', "call:borrow-mutate-overloaded"
    # containers built inside the body (Python constants / mixed with traced values in comptime
    # mode) lent to a mutating callee more than once, then read.  Traced slots are fresh
    # temporaries used nowhere else, one per slot: GuppyObjects are references in comptime mode, so
    # a traced value that sits in a lent list *and* is referenced elsewhere is updated by the
    # callee's write-back (known finding, probed by the dedicated `aliased` cell below, whose
    # temporaries are private to it so that nothing else in the body can be affected).
    if c < 0.985:
        # a whole non-copyable struct (array field + classical field) exchanged by a borrowing call:
        # afterwards *both* kinds of field must show the other struct's values
        a1, a2 = rng.randint(1, 9), rng.randint(10, 19)
        v = rng.choice([
            f's{k}a = S(array({a1}, 2, 3), {a1})\n    s{k}b = S(array({a2}, 5, 6), {a2})\n    mem_swap(s{k}a, s{k}b)\n    result("r{k}", s{k}a.k * 100 + s{k}b.k + s{k}a.xs[0])',
            f'u{k}a = x + 0\n    u{k}b = y + 0\n    s{k}a = S(array(u{k}a, 2, 3), {a1})\n    s{k}b = S(array(u{k}b, 5, 6), {a2})\n    mem_swap(s{k}a, s{k}b)\n    bump_s(s{k}a)\n    result("r{k}", s{k}a.xs[0] * 100 + s{k}a.k)',
        ])
        return v, "call:whole-struct-exchange"
    if c < 0.993:
        pre, e = [], []
        for j in range(4):
            if rng.random() < 0.5:
                e.append(str(rng.randint(1, 9)))
            else:
                pre.append(f"u{k}_{j} = {rng.choice(['x', 'y'])} + {rng.randint(0, 3)}")
                e.append(f"u{k}_{j}")
        pre_s = "".join(p_ + "\n    " for p_ in pre)
        v = rng.choice([
            f'l{k} = array({e[0]}, {e[1]}, {e[2]})\n    bump(l{k}, {e[3]})\n    bump(l{k}, 2)\n    result("r{k}", l{k})',
            f'l{k} = array({e[0]}, {e[1]}, {e[2]})\n    bump(l{k}, 1)\n    result("r{k}", l{k}[1] + l{k}[0])',
            f's{k} = S(array({e[0]}, {e[1]}, {e[2]}), {e[3]})\n    bump_s(s{k})\n    bump_s(s{k})\n    result("r{k}", s{k}.xs)',
            f's{k} = S(array({e[0]}, {e[1]}, {e[2]}), {e[3]})\n    bump_s(s{k})\n    result("r{k}", s{k}.xs[0] + s{k}.k)',
            # (the int slot of a lent *tuple* must be a traced value: a Python tuple holding a plain
            # Python int cannot be borrowed at comptime by design — "Cannot borrow Python object")
            f'w{k} = x + {rng.randint(0, 3)}\n    t{k} = (array({e[0]}, {e[1]}, {e[2]}), w{k})\n    bump_t(t{k})\n    bump_t(t{k})\n    result("r{k}", t{k}[0])',
        ])
        return pre_s + v, "call:borrow-mutate-local-" + v[0]
    v = (f'u{k} = x + 1\n    l{k} = array(u{k}, 4, 5)\n    bump0(l{k}, y)\n    result("r{k}", u{k})')
    return v, "call:borrow-mutate-local-aliased"


def build(rng):
    n = rng.randint(10, 16)
    stmts = [gen_stmt(rng, k) for k in range(n)]
    body = "def body(x: int, y: int, f: float, g: float, b: bool, xs: array[int, 3]) -> None:\n" + \
        "".join(f"    {s}\n" for s, _ in stmts)
    x, y = rng.randint(2, 9), rng.randint(1, 5)
    f, g = rng.choice([0.5, 1.5, 2.25, -3.5]), rng.choice([0.25, 2.0, -1.5])
    b = rng.choice(["True", "False"])
    # a second function of the same mode whose *return value* is observed by the caller: every
    # shape of returned value (scalar, 1-tuple, tuples, nested tuple, array, struct, None)
    ret_ty, ret_expr, reports = rng.choice(RET_SHAPES)
    body += ("\n\nDECORATOR\ndef rets(x: int, f: float, b: bool) -> " + ret_ty + ":\n    return " + ret_expr + "\n")
    main = ("@guppy\ndef main() -> None:\n    xs = array(1, 2, 3)\n"
            f"    body({x}, {y}, {f!r}, {g!r}, {b}, xs)\n    result(\"xs_after\", xs)\n"
            f"    rv = rets({x}, {f!r}, {b})\n" + "".join(f'    result("ret{j}", {e})\n' for j, e in enumerate(reports)))
    stmts.append((f"return {ret_expr}  # -> {ret_ty}", "return:" + ret_ty))
    return body, main, stmts


RET_SHAPES = [
    ("int", "x + 1", ["rv"]), ("tuple[int]", "(x,)", ["rv[0]"]), ("tuple[int, float]", "(x, f)", ["rv[0]", "rv[1]"]),
    ("tuple[tuple[int, bool], float]", "((x, b), f)", ["rv[0][0]", "rv[0][1]", "rv[1]"]),
    ("tuple[tuple[int]]", "((x,),)", ["rv[0][0]"]), ("array[int, 2]", "array(x, x + 1)", ["rv"]),
    ("P", "P(x, f)", ["rv.a", "rv.b"]), ("tuple[P, int]", "(P(x, f), x)", ["rv[0].b", "rv[1]"]),
    ("None", "None", ["1"]), ("tuple[int, tuple[float, bool]]", "(x, (f, b))", ["rv[0]", "rv[1][0]", "rv[1][1]"]),
    ("bool", "b", ["rv"]), ("tuple[array[int, 2], int]", "(array(x, 2), x)", ["rv[0]", "rv[1]"]),
]


def run_mode(ctx, body, main, decorator):
    from vf import ctx as C

    text = HELPERS + decorator + "\n" + body.replace("DECORATOR", decorator) + "\n" + main
    try:
        ld = ctx.load(text, "mode")
        pkg = ld.main.compile()
    except BaseException as e:
        if C.raised_in_harness(e):
            raise
        if C.is_guppy_error(e):
            return ("rejected", str(e)[:300])
        return ("crash", C.innermost_repo_frame(e) + " " + C.short_tb(e, 2))
    out = ctx.emulate(pkg)
    if out.panic:
        return ("panic", out.panic, out.stream())
    return ("ok", out.stream())


def split(stream):
    d = {}
    for t, v in stream:
        d.setdefault(t, []).append(v)
    return d


def judge(ctx, body, main, stmts):
    reg = run_mode(ctx, body, main, "@guppy")
    cmp_ = run_mode(ctx, body, main, "@guppy.comptime")
    counters = {"programs_emulated": 0, "statements_compared": 0}
    if reg[0] == "crash" or cmp_[0] == "crash":
        which = "regular" if reg[0] == "crash" else "comptime"
        return {"status": "violated", "mech": f"C21:{which}-compile-crash:" + (reg if reg[0] == "crash" else cmp_)[1].split(" ")[0],
                "witness": {"body": body, "main": main, "regular": repr(reg)[:500], "comptime": repr(cmp_)[:500]},
                "counters": counters}
    if reg[0] == "rejected" and cmp_[0] == "rejected":
        return {"status": "discard", "fp": None, "detail": "both modes reject", "counters": {"both_rejected": 1}}
    if reg[0] == "rejected" or cmp_[0] == "rejected":
        # every generated statement is accepted by both modes on the unchanged tree (operators,
        # int/float/len, containers, calls — the operations the property lists), so a body that only
        # one mode accepts does not "behave identically"
        which = "regular" if reg[0] == "rejected" else "comptime"
        msg = (reg if reg[0] == "rejected" else cmp_)[1]
        import re as _re
        key = _re.sub(r"`[^`]*`", "`_`", msg.strip().split("\n")[0])[:60]
        return {"status": "violated", "mech": f"C21:rejected-in-{which}-mode-only:{key}",
                "witness": {"body": body, "main": main, "regular": repr(reg)[:400], "comptime": repr(cmp_)[:400]},
                "counters": counters}
    counters["programs_emulated"] = 2
    rs, cs = split(reg[-1]), split(cmp_[-1])
    viols = []
    for k, (src, cell) in enumerate(stmts):
        tag = f"r{k}"
        if tag not in rs and tag not in cs:
            continue
        counters["statements_compared"] += 1
        if rs.get(tag) != cs.get(tag):
            viols.append({"mech": f"C21:{cell}", "witness": {"statement": src, "regular": rs.get(tag),
                                                            "comptime": cs.get(tag), "body": body, "main": main}})
    ret_tags = sorted(t_ for t_ in set(rs) | set(cs) if t_.startswith("ret"))
    if ret_tags:
        counters["return_values_compared"] = 1
        if any(rs.get(t_) != cs.get(t_) for t_ in ret_tags):
            viols.append({"mech": "C21:" + stmts[-1][1], "witness": {"statement": stmts[-1][0],
                          "regular": {t_: rs.get(t_) for t_ in ret_tags}, "comptime": {t_: cs.get(t_) for t_ in ret_tags},
                          "body": body, "main": main}})
    if rs.get("xs_after") != cs.get("xs_after"):
        viols.append({"mech": "C21:borrowed-argument-after-call",
                      "witness": {"regular": rs.get("xs_after"), "comptime": cs.get("xs_after"), "body": body,
                                  "main": main}})
    if reg[0] != cmp_[0]:
        viols.append({"mech": "C21:panic-in-one-mode", "witness": {"regular": reg[:2], "comptime": cmp_[:2],
                                                                  "body": body, "main": main}})
    seen = set()
    uniq = [v for v in viols if not (v["mech"] in seen or seen.add(v["mech"]))]
    rec = {"status": "violated" if uniq else "held", "counters": counters}
    if uniq:
        rec["violations"] = uniq
    return rec


def run_case(ctx, rng, idx, params, tier):
    body, main, stmts = build(rng)
    rec = judge(ctx, body, main, stmts)
    if rec["status"] != "discard":
        cells = sorted({c for _, c in stmts})
        rec["fp"] = hashlib.sha1(repr(cells).encode()).hexdigest()[:16]
        rec["sets"] = {"cells": cells}
        if idx < 2:
            rec["sample"] = {"body": body}
    return rec


def replay(ctx, w):
    if "body" not in w:
        return {"status": "held"}
    body, main = w["body"], w["main"]
    stmts = []
    for line in body.split("\n")[1:]:
        m = re.search(r'result\("r(\d+)"', line)
        if m:
            stmts.append((line.strip(), "replay"))
    # tags must stay aligned with their indices
    stmts2 = [("", "")] * (max([int(re.search(r'r(\d+)', s).group(1)) for s, _ in stmts] + [0]) + 1)
    for s, c in stmts:
        stmts2[int(re.search(r'r(\d+)', s).group(1))] = (s, c)
    return judge(ctx, body, main, stmts2)
