"""C02 — Rejected programs fail with a located user error, never a crash.

Near-miss mutants of accepted programs (AST mutations of G-prog programs; IR mutations of G-linear
programs) are pushed through the real check()/compile().  Monitor: the exception class escaping,
the diagnostic renderer, and every span of the diagnostic."""
from __future__ import annotations

import ast
import copy
import re

from vf.gen import glinear, gprog, mutate

LEVEL = "exploration"
LEVEL_TEXT = ("Mutation fuzzing of the real checker/compiler: for every mutant the only acceptable "
              "outcomes are success or a Guppy compilation error whose diagnostic renders and whose "
              "spans lie inside decorated source of the module. Held on N mutants over M distinct "
              "error titles; no claim for mutation classes not generated.")
LEVEL_NOTE = ("Trusted: mutants are syntactically valid Python (ast.unparse round-trip). Exceptions "
              "raised by Python itself while executing the module body before/outside guppy code "
              "(e.g. evaluating an annotation) are discarded, not judged. A span is 'inside' when its "
              "file is the module file, its lines fall within some @guppy-decorated def/class of that "
              "file and 0 <= column <= len(line).")
TECHNIQUE = "mutation fuzzing with an exception-class / diagnostic-render / span-location monitor on real check()+compile()"
RULE = ("mutators: wrong-typed constant or operand, deleted assignment, renamed use, call arity / "
        "keyword / starred args, 60 unsupported statement+expression forms, 23 bad annotations, "
        "operator change, stray break/continue/return, f[T] misuse, nested-function captures, "
        "non-ASCII comments and tags; plus G-linear ownership mutants. 1-2 mutations per case; every "
        "third case rewrites and re-imports one file path (edit+reload history) and every rendered "
        "`NN | code` line is compared with line NN of the current file. "
        "distinct = distinct (outcome class, error title, mutation names); non-trivial = rejected "
        "with a Guppy error or crashed")
FLOORS = {"guppy_errors_rendered": 50, "spans_checked": 50, "snippet_lines_compared": 50,
          "cases_on_rewritten_file": 20}


def plan(tier, seed):
    n = 1600 if tier == "quick" else 30000
    return {"n_cases": n, "floors": {"evaluations": n // 2}}


def decorated_ranges(text):
    tree = ast.parse(text)
    out = []
    for n in ast.walk(tree):
        if isinstance(n, (ast.FunctionDef, ast.ClassDef)) and n.decorator_list:
            first = min(d.lineno for d in n.decorator_list)
            out.append((first, n.end_lineno))
    return out


def check_spans(err, path, text):
    """Returns (n_spans, problem|None)."""
    from guppylang_internals.span import to_span

    lines = text.split("\n")
    ranges = decorated_ranges(text)
    diag = err.error
    spans = []
    if diag.span is not None:
        spans.append(("primary", to_span(diag.span)))
    for ch in diag.children:
        if ch.span is not None:
            spans.append(("child", to_span(ch.span)))
    for kind, sp in spans:
        if sp.file != str(path):
            return len(spans), f"{kind} span in foreign file {sp.file}"
        for loc in (sp.start, sp.end):
            if not any(a <= loc.line <= b for a, b in ranges):
                return len(spans), f"{kind} span line {loc.line} outside decorated source {ranges}"
            ln = lines[loc.line - 1] if 0 < loc.line <= len(lines) else ""
            if not 0 <= loc.column <= len(ln):
                if not ln.isascii() and 0 <= loc.column <= len(ln.encode("utf-8")):
                    # column counts UTF-8 bytes of a line with non-ASCII text before it
                    return len(spans), "utf8-byte-column"
                return len(spans), f"{kind} span column {loc.column} outside line of length {len(ln)}"
    return len(spans), None


GUTTER = re.compile(r"^\s*(\d+) \| ?(.*)$")


def check_snippets(rendered, err, text):
    """Every `NN | code` line of the rendering must show line NN of the file the primary span
    points into (the renderer may strip common leading indentation, nothing else).
    Returns (lines compared, problem | None)."""
    lines = text.split("\n")
    n = 0
    for rl in rendered.split("\n"):
        m = GUTTER.match(rl)
        if not m:
            continue
        no, shown = int(m.group(1)), m.group(2).rstrip()
        if not 0 < no <= len(lines):
            return n, f"gutter shows line {no} of a {len(lines)}-line file"
        real = lines[no - 1].rstrip()
        n += 1
        if shown.strip() != real.strip() or not real.endswith(shown.lstrip()):
            return n, f"line {no} rendered as {shown!r} but the file has {real!r}"
    return n, None


def judge_text(ctx, text, muts, entry_names=None, fixed=None):
    from guppylang.defs import GuppyFunctionDefinition

    from vf import ctx as C

    counters = {}
    sets = {}
    try:
        ld = ctx.load(text, fixed=fixed)
    except BaseException as e:
        if C.is_guppy_error(e):
            outcome = _judge_error(ctx, e, None, text, counters, sets)
            if outcome:
                return _viol(outcome, text, muts, e)
            return {"status": "held", "fp": f"def-time:{type(e).__name__}", "counters": counters, "sets": sets}
        return {"status": "discard", "fp": None, "detail": f"python-level {type(e).__name__} at import",
                "counters": {"python_level_error_at_import": 1}}
    defs = [(n, v) for n, v in vars(ld.module).items()
            if isinstance(v, GuppyFunctionDefinition) and (entry_names is None or n in entry_names)]
    outcomes = []
    for name, d in defs:
        for action in ("check", "compile"):
            try:
                if action == "check":
                    d.check()
                else:
                    d.compile_function()
                outcomes.append("ok")
            except BaseException as e:
                if C.raised_in_harness(e):
                    raise
                if C.is_guppy_error(e):
                    problem = _judge_error(ctx, e, ld.path, text, counters, sets)
                    if problem:
                        return _viol(problem, text, muts, e, name, action)
                    outcomes.append("err:" + str(getattr(getattr(e, "error", None), "title", type(e).__name__)))
                    break
                mech = "C02:crash:" + C.innermost_repo_frame(e)
                return _viol(mech, text, muts, e, name, action)
    rejected = any(o.startswith("err:") for o in outcomes)
    counters["mutants_rejected" if rejected else "mutants_accepted"] = 1
    title = next((o for o in outcomes if o.startswith("err:")), "ok")
    fp = f"{title}|{'+'.join(sorted(set(muts)))}" if rejected else None
    return {"status": "held", "fp": fp, "counters": counters, "sets": sets}


def _judge_error(ctx, e, path, text, counters, sets):
    from guppylang_internals.error import GuppyError

    if not isinstance(e, GuppyError):
        counters["guppy_comptime_errors"] = counters.get("guppy_comptime_errors", 0) + 1
        return None
    try:
        rendered = ctx.render(e)
    except BaseException as r:
        from vf import ctx as C

        return "C02:render-raised:" + C.innermost_repo_frame(r)
    counters["guppy_errors_rendered"] = counters.get("guppy_errors_rendered", 0) + 1
    sets.setdefault("error_titles", [])
    t = str(getattr(e.error, "title", "?"))
    if t not in sets["error_titles"]:
        sets["error_titles"].append(t)
    if not rendered.strip():
        return "C02:empty-rendering"
    if path is not None:
        n, problem = check_spans(e, path, text)
        counters["spans_checked"] = counters.get("spans_checked", 0) + n
        if problem == "utf8-byte-column":
            return "C02:span-column-counts-utf8-bytes"
        if problem:
            kind = problem.split(" span ")[1].split(" ")[0] if " span " in problem else "?"
            return f"C02:span-outside-source:{kind}:{t}"
        from guppylang_internals.span import to_span

        if e.error.span is not None and to_span(e.error.span).file == str(path) and text.isascii():
            n, problem = check_snippets(rendered, e, text)
            counters["snippet_lines_compared"] = counters.get("snippet_lines_compared", 0) + n
            if problem:
                return "C02:rendered-snippet-is-not-the-decorated-source"
    return None


def _viol(mech, text, muts, e, name=None, action=None):
    from vf import ctx as C

    return {"status": "violated", "fp": mech, "mech": mech,
            "witness": {"text": text, "mutations": muts, "function": name, "action": action,
                        "error": C.short_tb(e, 5)}}


def run_case(ctx, rng, idx, params, tier):
    if idx % 10 < 7:
        prog = gprog.generate(rng)
        base = prog.text()
        names = [f.name for f in prog.g.funcs] + ["main"]
        text, muts = mutate.mutate_text(base, rng, n=rng.choice([1, 1, 2]),
                                        non_ascii=(idx % 10 == 6))
    else:
        _t, _fp, fn = glinear.generate(rng)
        fn = copy.deepcopy(fn)
        muts = [glinear.mutate(fn, rng) for _ in range(rng.choice([1, 2]))]
        text = glinear.render(fn)
        names = ["main"]
    # every third case re-uses one file path: the module is rewritten and re-imported in the same
    # session (edit + reload), so diagnostics must be cut from the *current* source text
    fixed = "reloaded" if idx % 3 == 0 else None
    rec = judge_text(ctx, text, muts, names, fixed=fixed)
    if fixed:
        rec.setdefault("counters", {})["cases_on_rewritten_file"] = 1
    rec.setdefault("sets", {})["mutations"] = sorted({m.split(":")[0] for m in muts})
    if idx < 3 and rec["status"] == "held":
        rec["sample"] = {"mutations": muts, "program": text}
    return rec


def replay(ctx, w):
    return judge_text(ctx, w["text"], w.get("mutations", []),
                      [w["function"]] if w.get("function") else None)
