"""C15 — Overloaded calls pick the first applicable variant.

Self-differential on /repo's real code, exactly as the statement defines it: for every overload
set and argument list, each variant's *direct* call is checked on its own; the expected variant is
the first one that is accepted.  The overloaded call must be accepted iff some variant is, and its
result stream on the real emulator must equal the direct call's."""
from __future__ import annotations

import hashlib

LEVEL = "exploration"
LEVEL_TEXT = ("Self-differential testing: overloaded call vs direct call to each variant, over generated "
              "overload sets (arity, numeric coercions, arrays, a generic variant) and argument lists, "
              "in synthesis position, annotated (checking) position and as an argument of another call; "
              "accept/reject equivalence on the real checker and stream equality on the real emulator.")
LEVEL_NOTE = ("Trusted: the direct calls as reference (that is the statement's own definition); each "
              "variant reports its index, so the selected variant is observed, not inferred.")
TECHNIQUE = "self-differential execution (overloaded call vs first accepted direct call) with variant-index event monitor"
RULE = ("overload sets of 2-5 defined variants with parameter lists over int/nat/float/bool/arrays/tuples"
        "/generic T (arity 0-3) and return types int/float/bool/None; a third of the sets list an inner "
        "overload set as one of their variants; 6 argument lists per set from literals, typed "
        "variables, tuple/array displays and generic calls containing literals; positions: synthesis, annotated target, argument of a typed "
        "sink. distinct = (variant signatures, argument types, position)")
FLOORS = {"call_sites_probed": 150, "expected_accept": 40, "expected_reject": 15}

HDR = '''from guppylang import guppy
from guppylang.std.builtins import result, array, nat
from guppylang.std.option import Option, nothing

T = guppy.type_var("T")

@guppy
def idg(x: T) -> T:
    return x

@guppy
def sink_int(x: int) -> None:
    result("sink_int", x)

@guppy
def sink_float(x: float) -> None:
    result("sink_float", x)

@guppy
def sink_bool(x: bool) -> None:
    result("sink_bool", x)

'''
PTYPES = ["int", "nat", "float", "bool", "array[int, 2]", "tuple[int, int]", "tuple[nat, bool]",
          "tuple[float, bool]", "array[nat, 2]", "tuple[tuple[int, int], bool]"]
RET = {"int": "7", "float": "2.5", "bool": "True", "None": None, "Option[T]": "nothing()"}
# "Option[T]": a variant whose type variable occurs only in its result: acceptable exactly where an
# expected type is known (annotated target)
ARGS = {
    "int": ["3", "iv"], "nat": ["nv"], "float": ["1.5", "fv"], "bool": ["True", "bv"],
    "array[int, 2]": ["array(1, 2)", "array(iv, 2)"], "array[nat, 2]": ["array(1, 2)", "array(nv, 2)"],
    # literals nested inside displays / calls: a rejected variant must not leave its typing of them behind
    "tuple[int, int]": ["(3, 4)", "(iv, 4)", "(idg(3), 4)"], "tuple[nat, bool]": ["(3, True)", "(nv, bv)"],
    "tuple[float, bool]": ["(1.5, True)", "(3, True)", "(fv, bv)"],
    "tuple[tuple[int, int], bool]": ["((3, 4), True)", "((iv, 4), bv)"],
}
ARGS["int"] += ["idg(3)", "-3"]
ARGS["float"] += ["idg(1.5)"]
PRELUDE = "    iv = 4\n    nv: nat = 5\n    fv = 0.25\n    bv = False\n"


def plan(tier, seed):
    n = 48 if tier == "quick" else 1200
    return {"n_cases": n, "floors": {"evaluations": n // 2}}


FAMILIES = [["tuple[int, int]", "tuple[nat, bool]", "tuple[float, bool]", "tuple[tuple[int, int], bool]"],
            ["array[int, 2]", "array[nat, 2]", "int", "nat"], ["int", "nat", "float", "bool"]]


def gen_set(rng):
    k = rng.randint(2, 5)
    variants = []
    if rng.random() < 0.4:
        # confusable family: variants differ only in how they type the same argument shapes, so a
        # variant that is rejected late has already typed the literals inside the argument
        fam = rng.choice(FAMILIES)
        for i in range(k):
            params = [rng.choice(fam) for _ in range(rng.choice([1, 1, 2]))]
            variants.append((params, rng.choice(list(RET)), False))
        return variants
    for i in range(k):
        if rng.random() < 0.15:
            params = ["T", "T"] if rng.random() < 0.6 else ["T"]
            generic = True
        else:
            params = [rng.choice(PTYPES) for _ in range(rng.choice([0, 1, 1, 2, 2, 3]))]
            generic = False
        ret = rng.choice(list(RET))
        if ret == "Option[T]" and rng.random() < 0.5:
            ret = "int"
        variants.append((params, ret, generic))
    return variants


def variant_src(i, v):
    params, ret, _ = v
    ps = ", ".join(f"a{j}: {t}" for j, t in enumerate(params))
    body = f'    result("variant", {i})\n'
    if RET[ret] is not None:
        body += f"    return {RET[ret]}\n"
    return f"@guppy\ndef v{i}({ps}) -> {ret}:\n{body}\n"


def gen_args(rng, variants):
    """Argument type lists biased towards the variants' own shapes."""
    lists = []
    for _ in range(6):
        if rng.random() < 0.7:
            params, _, generic = rng.choice(variants)
            tys = [rng.choice(PTYPES[:4] + PTYPES[5:8]) if p == "T" else p for p in params]
            if rng.random() < 0.4 and tys:
                j = rng.randrange(len(tys))
                tys[j] = rng.choice(PTYPES)
        else:
            tys = [rng.choice(PTYPES) for _ in range(rng.randint(0, 3))]
        srcs = [rng.choice(ARGS[t]) for t in tys]
        lists.append((tys, srcs))
    return lists


def call_line(fn, srcs, pos, k):
    call = f"{fn}({', '.join(srcs)})"
    if pos == "synth":
        return [f"    r{k} = {call}"]
    if pos.startswith("ann:"):
        return [f"    r{k}: {pos[4:]} = {call}"]
    if pos.startswith("sink:"):
        return [f"    sink_{pos[5:]}({call})"]
    raise AssertionError(pos)


def report_line(pos, k, ret_known):
    return []


def module(variants, body_lines, with_overload, nest=None):
    """nest=(a, b): variants a..b-1 form an inner overload set that is listed in their place; the
    flattened order (and therefore the first applicable variant) is unchanged."""
    text = HDR + "".join(variant_src(i, v) for i, v in enumerate(variants))
    if with_overload:
        names = [f"v{i}" for i in range(len(variants))]
        if nest:
            a, b = nest
            text += "@guppy.overload(" + ", ".join(names[a:b]) + ")\ndef inner(*args): ...\n\n"
            names[a:b] = ["inner"]
        text += "@guppy.overload(" + ", ".join(names) + ")\ndef comb(*args): ...\n\n"
    text += "@guppy\ndef main() -> None:\n" + PRELUDE + "\n".join(body_lines) + "\n"
    return text


def accepted(ctx, text):
    from vf import ctx as C

    ld = ctx.load(text, "ovl")
    try:
        ld.main.check()
        return True, ld
    except BaseException as e:
        if C.raised_in_harness(e):
            raise
        if C.is_guppy_error(e):
            return False, None
        raise Crash(C.innermost_repo_frame(e), C.short_tb(e, 4))


class Crash(Exception):
    def __init__(self, frame, tb):
        super().__init__(frame)
        self.frame, self.tb = frame, tb


PAIRS = [(a, b) for fam in FAMILIES for a in fam for b in fam if a != b]


def run_case(ctx, rng, idx, params, tier):
    from vf import ctx as C

    variants = gen_set(rng)
    arglists = gen_args(rng, variants)
    if idx % 2 == 1:
        # systematic sweep over ordered pairs (A, B) of confusable parameter types: A is listed
        # first, the arguments are the ones written for B (so A, where it rejects, rejects after
        # having looked at the literals inside), optionally followed by a random third variant
        a, b = PAIRS[(idx // 2 + rng.randrange(len(PAIRS))) % len(PAIRS)] if tier != "quick" else \
            PAIRS[(idx // 2) % len(PAIRS)]
        plain = ["int", "float", "bool", "None"]  # (result-only generic variants would reject every synthesis site)
        variants = [([a], rng.choice(plain), False), ([b], rng.choice(plain), False)]
        if rng.random() < 0.5:
            variants.append(([rng.choice(PTYPES)], rng.choice(plain), False))
        arglists = [([b], [src]) for src in ARGS[b]] + [([a], [src]) for src in ARGS[a][:2]]
    nest = None
    if rng.random() < 0.35 and len(variants) >= 3:
        # an inner set needs >= 2 members and the outer set >= 2 entries
        a = rng.randrange(len(variants) - 1)
        b = rng.randint(a + 2, len(variants))
        if len(variants) - (b - a) + 1 >= 2:
            nest = (a, b)
    viols = []
    counters = {"call_sites_probed": 0, "expected_accept": 0, "expected_reject": 0, "direct_checks": 0,
                "sets_with_nested_overload": 1 if nest else 0}
    direct_lines, over_lines = [], []
    cells = set()
    k = 0
    try:
        for tys, srcs in arglists:
            pos = rng.choice(["synth", "synth", "ann:int", "ann:float", "ann:bool", "sink:int", "sink:float",
                              "sink:bool", "ann:Option[int]", "ann:Option[int]"])
            k += 1
            counters["call_sites_probed"] += 1
            first = None
            for i in range(len(variants)):
                counters["direct_checks"] += 1
                ok, _ = accepted(ctx, module(variants, call_line(f"v{i}", srcs, pos, k), False))
                if ok:
                    first = i
                    break
            ok_over, _ = accepted(ctx, module(variants, call_line("comb", srcs, pos, k), True, nest))
            cells.add(f"{pos}:{','.join(tys)}:{'acc' if first is not None else 'rej'}")
            wit = {"variants": [(p, r) for p, r, _ in variants], "nested_set": nest, "args": srcs, "arg_types": tys, "position": pos,
                   "first_accepted_direct": first}
            if first is None:
                counters["expected_reject"] += 1
                if ok_over:
                    viols.append({"mech": f"C15:overload-accepted-but-no-variant-accepts:{pos.split(':')[0]}",
                                  "witness": wit})
                continue
            counters["expected_accept"] += 1
            if not ok_over:
                viols.append({"mech": f"C15:overload-rejected-although-variant-accepts:{pos.split(':')[0]}",
                              "witness": wit})
                continue
            mark = f'    result("site", {k})'
            direct_lines += [mark] + call_line(f"v{first}", srcs, pos, k)
            over_lines += [mark] + call_line("comb", srcs, pos, k)
            ret = variants[first][1]
            if (pos == "synth" and ret not in ("None", "Option[T]")) or \
                    (pos.startswith("ann:") and not pos.startswith("ann:Option")):
                direct_lines.append(f'    result("ret", r{k})')
                over_lines.append(f'    result("ret", r{k})')
    except Crash as c:
        viols.append({"mech": "C15:checker-crash:" + c.frame, "witness": {"error": c.tb}})
    if direct_lines:
        try:
            ld_d = ctx.load(module(variants, direct_lines, False), "ovl_direct")
            ld_o = ctx.load(module(variants, over_lines, True, nest), "ovl_over")
            out_d = ctx.emulate(ld_d.main.compile())
            out_o = ctx.emulate(ld_o.main.compile())
            counters["emulated_pairs"] = 1
            if out_d.stream() != out_o.stream() or out_d.panic != out_o.panic:
                sd, so = out_d.stream(), out_o.stream()
                site = None
                for a, b in zip(sd, so):
                    if a[0] == "site":
                        site = a[1]
                    if a != b:
                        break
                viols.append({"mech": "C15:overloaded-call-behaves-differently-from-direct-call",
                              "witness": {"variants": [(p, r) for p, r, _ in variants], "first_differing_site": site,
                                          "direct": sd, "overloaded": so,
                                          "program": module(variants, over_lines, True, nest)}})
        except BaseException as e:
            if C.raised_in_harness(e) or isinstance(e, C.HarnessError):
                raise
            viols.append({"mech": "C15:compile-failed-after-check:" + (
                "guppy-error" if C.is_guppy_error(e) else C.innermost_repo_frame(e)),
                "witness": {"program": module(variants, over_lines, True), "error": C.short_tb(e, 4)}})
    seen = set()
    uniq = [v for v in viols if not (v["mech"] in seen or seen.add(v["mech"]))]
    rec = {"status": "violated" if uniq else "held",
           "fp": hashlib.sha1(repr([(p, r) for p, r, _ in variants]).encode()).hexdigest()[:16],
           "counters": counters, "sets": {"cells": sorted(cells)}}
    if uniq:
        rec["violations"] = uniq
    if idx < 2:
        rec["sample"] = {"variants": [(p, r) for p, r, _ in variants], "arg_lists": [s for _, s in arglists]}
    return rec


def replay(ctx, w):
    return {"status": "held", "note": "re-run `./check C15 --seed <seed>`; witness: " + repr(w)[:500]}
