"""C22 — Comptime tracing enforces ownership.

Comptime bodies are generated from an ownership script over qubits, arrays, tuples and structs
received owned / borrowed or created locally (use, use twice, leak, return, return twice, every
in-place mutator on owned-derived vs borrowed values).  The generator's own model labels each
script: a Guppy error is expected iff the script violates a rule; scripts that do not must compile
and validate."""
from __future__ import annotations

import hashlib

LEVEL = "exploration"
LEVEL_TEXT = ("Differential testing of the tracer's ownership enforcement against the generator's model "
              "of the script (both directions): violating scripts must fail with a Guppy error (not a "
              "crash, not a HUGR), clean scripts must compile to a valid HUGR.")
LEVEL_NOTE = ("Trusted: the script model (uses/consumptions of each qubit object, length and element "
              "type of borrowed lists at return, frozen-ness of owned-derived containers).")
TECHNIQUE = "reference-model monitor: ownership script model vs real tracer outcome (+ HUGR validation of successes)"
RULE = ("bodies with parameters q @owned, r (borrowed qubit), xs @owned / ys borrowed int arrays, p "
        "(copyable struct), qp @owned / rp borrowed structs holding a qubit, qs @owned qubit array, "
        "owned tuples / arrays-of-tuples / structs with int arrays nested inside, a borrowed tuple "
        "holding an array; "
        "3-8 ops from: borrow-call, consume-call, local allocation, every MutableSequence mutator + "
        "sort/*=/slice assignment/deletion, struct field assignment, copy(); return of none / one / "
        "several / repeated qubits. distinct = (op kind sequence, return shape)")
FLOORS = {"expected_error": 40, "expected_ok": 20}

HDR = '''from guppylang import guppy
from guppylang.std.builtins import array, owned, result
from guppylang.std.quantum import qubit, h, cx, discard, measure
from guppylang.std.option import Option

@guppy.struct
class P:
    a: int
    b: int

@guppy.struct
class QP:
    q: qubit
    k: int

@guppy.declare
def eat_arr0(a: array[int, 0] @owned) -> None: ...

@guppy.declare
def mk0() -> array[int, 0]: ...

@guppy.declare
def mko() -> Option[array[int, 2]]: ...

@guppy.declare
def eat_o(a: Option[array[int, 2]] @owned) -> None: ...

@guppy.struct
class SX:
    xs: array[int, 3]
    p: P
    k: int

'''
MUTATORS = [
    ("{L}.append(7)", +1, None), ("{L}.clear()", "clear", None), ("{L}.extend([8, 9])", +2, None),
    ("{L}.insert(0, 5)", +1, None), ("{L}.pop()", -1, None), ("{L}.remove({L}[0])", -1, None),
    ("{L}.reverse()", 0, None), ("{L}.sort()", 0, None), ("del {L}[0]", -1, None),
    ("{L} += [4]", +1, None), ("{L} *= 2", "double", None), ("{L}[0] = 11", 0, None),
    ("{L}[0:1] = [1, 2]", +1, None), ("del {L}[0:2]", -2, None), ("{L}[1] = 2.5", 0, "float"),
]


def plan(tier, seed):
    n = 400 if tier == "quick" else 8000
    return {"n_cases": n, "floors": {"evaluations": n // 2}}


class Model:
    def __init__(self):
        # qubit object -> [kind, used]; kind in owned / borrowed / local
        self.q = {"q": ["owned", False], "r": ["borrowed", False], "qp.q": ["owned", False],
                  "rp.q": ["borrowed", False], "qs[0]": ["owned", False], "qs[1]": ["owned", False]}
        self.err = None
        self.ys_len = 3
        self.ys_types_ok = True
        self.nloc = 0
        self.qs_whole = True  # qs list object still intact (not mutated)

    def fail(self, why):
        if self.err is None:
            self.err = why

    def borrow(self, x):
        if self.q[x][1]:
            self.fail("use-after-consume")

    def consume(self, x):
        if self.q[x][1]:
            self.fail("double-use")
        self.q[x][1] = True


NESTED_OWNED_LISTS = ["tx[0]", "tt[0][0]", "ta[0][0]", "ta[1][0]", "sx.xs", "ta"]

VIOLATIONS = ["mutate-owned-nested", "mutate-owned-nested", "double-use-affine", "double-use-affine", "double-use", "use-after-consume", "leak", "mutate-owned-list", "mutate-owned-qubit-list",
              "borrowed-consumed", "borrowed-array-length", "borrowed-array-type", "setattr-frozen",
              "return-dup", "borrowed-struct-field-type", "mutate-owned-struct-with-qubit"]


def build(rng):
    m = Model()
    lines = []
    kinds = []
    zs = False
    violation = rng.choice(VIOLATIONS) if rng.random() < 0.55 else None

    def unused(kinds_=("owned", "local")):
        return [x for x, (k, u) in m.q.items() if not u and k in kinds_]

    # ---- legal base ops
    for _ in range(rng.randint(2, 7)):
        c = rng.random()
        if c < 0.25:
            xs_ = unused(("owned", "local", "borrowed"))
            if xs_:
                x = rng.choice(xs_)
                lines.append(f"h({x})")
                kinds.append("borrow:" + m.q[x][0])
        elif c < 0.4:
            xs_ = unused()
            if xs_:
                x = rng.choice(xs_)
                lines.append(rng.choice([f"discard({x})", f"_b = measure({x})"]))
                m.consume(x)
                kinds.append("consume:" + m.q[x][0])
        elif c < 0.5:
            name = f"l{m.nloc}"
            m.nloc += 1
            lines.append(f"{name} = qubit()")
            m.q[name] = ["local", False]
            kinds.append("alloc")
        elif c < 0.6:
            xs_ = unused(("owned", "local", "borrowed"))
            if len(xs_) >= 2:
                a, b = rng.sample(xs_, 2)
                lines.append(f"cx({a}, {b})")
                kinds.append("borrow2")
        elif c < 0.8:
            tgt = rng.choice(["ys", "zs"])
            if tgt == "zs":
                if not zs:
                    lines.append("zs = xs.copy()")
                    zs = True
                    kinds.append("copy")
                    continue
                src = rng.choice(["zs.append(7)", "zs.reverse()", "zs[0] = 11", "zs += [4]"])
            else:
                src = rng.choice(["ys.reverse()", "ys[0] = 11", "ys[2] = ys[0]"])
            lines.append(src)
            kinds.append("legal-mutate:" + tgt)
        elif c < 0.9:
            lines.append("rp.k = 7")
            kinds.append("setattr:borrowed")
        elif c < 0.95:
            lines.append("_n = len(ys) + p.a + xs[0]")
            kinds.append("read")
        elif c < 0.975:
            lines.append("_m = tx[0][1] + tx[1] + tt[0][0][2] + tt[1] + ta[1][0][0] + ta[0][1] + sx.xs[0] + sx.p.a + bx[0][2]")
            kinds.append("read-nested")
        elif c < 0.99:
            lines.append(rng.choice(["bx[0][0] = 11", "bx[0].reverse()", "bx[0][1] = bx[0][2]"]))
            kinds.append("legal-mutate:borrowed-nested")
        else:
            k_ = len(lines)
            lines += rng.choice([[f"zz{k_} = mk0()", f"eat_arr0(zz{k_})"], [f"oo{k_} = mko()", f"eat_o(oo{k_})"],
                                 [f"oo{k_} = mko()"]])
            kinds.append("single-use:affine-opaque")
    # ---- injected violation (mid-body kinds)
    pos = rng.randint(0, len(lines))
    inj = None
    if violation == "double-use":
        xs_ = unused()
        if xs_:
            x = rng.choice(xs_)
            inj = [f"discard({x})", f"discard({x})"]
            m.consume(x)
            pos = len(lines)
    elif violation == "use-after-consume":
        xs_ = unused()
        if xs_:
            x = rng.choice(xs_)
            inj = [f"discard({x})", f"h({x})"]
            m.consume(x)
            pos = len(lines)
    elif violation == "mutate-owned-list":
        src, _, _ = rng.choice(MUTATORS)
        inj = [src.format(L="xs")]
    elif violation == "double-use-affine":
        # non-copyable but droppable values (arrays, structs holding arrays) may be used at most once
        # (values that stay opaque while tracing: an int array argument is unpacked into a Python
        # list of copyable ints and may be re-packed any number of times, so it is not used here)
        inj = rng.choice([["z0 = mk0()", "eat_arr0(z0)", "eat_arr0(z0)"], ["o0 = mko()", "eat_o(o0)", "eat_o(o0)"],
                          ["eat_o(op)", "eat_o(op)"], ["o0 = mko()", "o1 = o0", "eat_o(o0)", "eat_o(o1)"]])
        pos = len(lines)
    elif violation == "mutate-owned-nested":
        # containers reached *through* tuples / arrays / structs of an owned argument are frozen too
        L_ = rng.choice(NESTED_OWNED_LISTS)
        if L_ == "ta":
            inj = [rng.choice(["ta.reverse()", "ta.pop()", "ta.clear()", "del ta[0]", "ta *= 1"])]
        else:
            src, _, _ = rng.choice([m_ for m_ in MUTATORS if "{L} +=" not in m_[0] and "{L} *=" not in m_[0]
                                    or L_ == "sx.xs"])
            inj = [src.format(L=L_)]
    elif violation == "mutate-owned-qubit-list":
        inj = [rng.choice(["qs.reverse()", "qs.pop()", "qs.clear()", "del qs[0]", "qs[0] = qubit()",
                           "qs.append(qubit())", "qs *= 1", "qs.sort()"])]
    elif violation == "borrowed-consumed":
        x = rng.choice(["r", "rp.q"])
        inj = [f"discard({x})"]
        pos = len(lines)
    elif violation == "borrowed-array-length":
        inj = [rng.choice(["ys.append(7)", "ys.pop()", "ys.clear()", "ys.extend([8, 9])", "ys.insert(0, 5)",
                           "del ys[0]", "ys += [4]", "ys *= 2", "ys[0:1] = [1, 2]", "del ys[0:2]",
                           "ys.remove(ys[0])"])]
        pos = len(lines)
    elif violation == "borrowed-array-type":
        inj = ["ys[1] = 2.5"]
        pos = len(lines)
    elif violation == "setattr-frozen":
        inj = [rng.choice(["p.a = 5", "p.b = p.a"])]
    elif violation == "mutate-owned-struct-with-qubit":
        inj = ["qp.k = 5"]
    elif violation == "borrowed-struct-field-type":
        inj = ["rp.k = 1.5"]
        pos = len(lines)
    if violation in ("leak", "return-dup"):
        inj = []
    if violation is not None and inj is None:
        violation = None
    if inj:
        lines[pos:pos] = inj
        kinds.append("violation:" + violation)
    # ---- return + epilogue
    shape = rng.choice(["none", "one", "two", "qs"])
    ret_ty = "None"
    ret_line = "return"
    cands = unused()
    if violation == "return-dup" and cands:
        x = rng.choice(cands)
        ret_line = f"return {x}, {x}"
        m.consume(x)
        ret_ty = "tuple[qubit, qubit]"
        kinds.append("violation:return-dup")
    elif violation == "return-dup":
        violation = None
    elif shape == "one" and cands:
        x = rng.choice(cands)
        ret_line = f"return {x}"
        m.consume(x)
        ret_ty = "qubit"
    elif shape == "two" and len(cands) >= 2:
        a, b = rng.sample(cands, 2)
        ret_line = f"return {a}, {b}"
        m.consume(a)
        m.consume(b)
        ret_ty = "tuple[qubit, qubit]"
    elif shape == "qs" and not m.q["qs[0]"][1] and not m.q["qs[1]"][1] and violation != "mutate-owned-qubit-list":
        ret_line = "return qs"
        m.consume("qs[0]")
        m.consume("qs[1]")
        ret_ty = "array[qubit, 2]"
    else:
        shape = "none"
    kinds.append("return:" + (shape if ret_line != "return" or shape == "none" else "none"))
    left = unused()
    if violation == "leak":
        if left:
            keep = rng.choice(left)
            left = [x for x in left if x != keep]
            kinds.append("violation:leak")
        else:
            violation = None
    for x in left:
        lines.append(f"discard({x})")
    lines.append(ret_line)
    body = "".join(f"    {l}\n" for l in lines)
    text = (HDR + "@guppy.comptime\ndef body(q: qubit @owned, r: qubit, xs: array[int, 3] @owned, "
            "ys: array[int, 3], p: P, qp: QP @owned, rp: QP, qs: array[qubit, 2] @owned, "
            "tx: tuple[array[int, 3], int] @owned, tt: tuple[tuple[array[int, 3], bool], int] @owned, "
            "ta: array[tuple[array[int, 2], int], 2] @owned, sx: SX @owned, bx: tuple[array[int, 3], int], "
            "op: Option[array[int, 2]] @owned) -> "
            f"{ret_ty}:\n{body}")
    return text, violation, kinds


def _raised_in_user_body(e, path):
    tb = e.__traceback__
    last = None
    while tb is not None:
        last = tb.tb_frame.f_code.co_filename
        tb = tb.tb_next
    return last == path


def judge_text(ctx, text, expected_err):
    from vf import ctx as C

    ld = ctx.load(text)
    try:
        pkg = ld.body.compile_function()
        got = None
    except BaseException as e:
        if C.raised_in_harness(e):
            raise
        if C.is_guppy_error(e):
            got = "guppy-error"
        elif _raised_in_user_body(e, str(ld.path)):
            # a plain Python exception from the generated body itself (e.g. IndexError): Python's
            # semantics, not an ownership matter
            return {"status": "discard", "fp": None, "detail": f"python error in body: {type(e).__name__}",
                    "counters": {"python_error_in_body": 1}}
        else:
            return {"status": "violated", "mech": "C22:non-guppy-exception:" + C.innermost_repo_frame(e),
                    "witness": {"text": text, "expected": expected_err, "error": C.short_tb(e, 4)}}
    counters = {"expected_error" if expected_err else "expected_ok": 1}
    if expected_err and got is None:
        return {"status": "violated", "mech": f"C22:accepted:{expected_err}",
                "witness": {"text": text, "expected": expected_err}, "counters": counters}
    if not expected_err and got is not None:
        return {"status": "violated", "mech": "C22:clean-script-rejected",
                "witness": {"text": text}, "counters": counters}
    if got is None:
        e1, e2 = ctx.validate_both(pkg)
        counters["validated"] = 1
        if e1 or e2:
            return {"status": "violated", "mech": "C22:accepted-script-invalid-hugr",
                    "witness": {"text": text, "V1": e1, "V2": e2}, "counters": counters}
    return {"status": "held", "counters": counters}


def run_case(ctx, rng, idx, params, tier):
    text, err, kinds = build(rng)
    rec = judge_text(ctx, text, err)
    rec["fp"] = hashlib.sha1(repr(kinds).encode()).hexdigest()[:16]
    rec.setdefault("sets", {})["rule_classes"] = [err or "ok"]
    rec["sets"]["op_kinds"] = sorted(set(kinds))
    if idx < 3:
        rec["sample"] = {"body": text.split("@guppy.comptime")[1], "expected": err or "ok"}
    return rec


def replay(ctx, w):
    return judge_text(ctx, w["text"], w.get("expected"))
