"""C30 — Source span containment and intersection follow interval semantics.

Exhaustive: every Loc on a 3-line x 4-column grid in 2 files, every valid Span, every (span, span)
and (loc, span) pair, judged by interval arithmetic on (line, column) tuples.  The monitor is an
icontract postcondition attached to the real `Span.__contains__` / `Span.__and__`; the workload
drives every pair through the real methods."""
from __future__ import annotations

import itertools

LEVEL = "exploration"
LEVEL_TEXT = ("Exhaustive enumeration of all span/span and location/span pairs over a 3x4 grid in two "
              "files, each driven through the real Span.__contains__/__and__ under a postcondition "
              "contract computing interval semantics independently. The space is finite and small, "
              "so enumeration is complete for that grid; larger coordinates behave identically "
              "because the code only compares (line, column) tuples.")
LEVEL_NOTE = ("Trusts Python tuple ordering for the oracle. A location equal to a span's end, and two "
              "spans that merely touch, are accepted either way (the statement does not fix "
              "end-exclusivity).")
TECHNIQUE = "exhaustive runtime contract (icontract postcondition) over all span/loc pairs of a small grid"
RULE = ("all Locs on 3 lines x 4 columns x 2 files; all Spans with start<=end; all ordered (span,span) "
        "and (loc,span) pairs. fingerprint = (operation, relation class of the pair); every pair is "
        "non-trivial (each is a distinct input). Plus a churn phase: 4000 pairs per shard of short-lived "
        "spans with lines up to 100 and columns up to 120, each queried twice and dropped (stale per-object "
        "state, identity reuse)")
ASSUMPTIONS = ["grid 3x4x2 is representative: the implementation only uses tuple comparison of "
               "(file, line, column)"]
FILES = ["a.py", "b.py"]
LINES = [1, 2, 3]
COLS = [0, 1, 2, 3]
NSHARDS = 16
CHURN = 4000


def plan(tier, seed):
    return {"n_cases": NSHARDS, "exhaustive": True, "floors": {"pairs_checked": 20000}}


class PostBroken(Exception):
    pass


_state = {"viol": [], "evals": 0}


def _key(loc):
    return (loc.line, loc.column)


def _rel(a_s, a_e, b_s, b_e):
    """relation class of interval a to interval b (for fingerprints / mechanism keys)."""
    if a_e < b_s:
        return "before"
    if b_e < a_s:
        return "after"
    if a_e == b_s or b_e == a_s:
        return "touching"
    if a_s == b_s and a_e == b_e:
        return "equal"
    if b_s <= a_s and a_e <= b_e:
        return "inside"
    if a_s <= b_s and b_e <= a_e:
        return "around"
    return "overlap"


def worker_init(ctx, job):
    import icontract
    from guppylang_internals import span as sp

    Span, Loc = sp.Span, sp.Loc

    def contains_ok(self, x, result):
        _state["evals"] += 1
        if self.file != x.file:
            exp = (False,)
        elif isinstance(x, Span):
            exp = (_key(self.start) <= _key(x.start) and _key(x.end) <= _key(self.end),)
        else:
            k = _key(x)
            if k == _key(self.end) and _key(self.start) != k:
                exp = (True, False)  # end-exclusivity not fixed by the statement
            else:
                exp = (_key(self.start) <= k <= _key(self.end),)
        if bool(result) not in exp:
            _state["viol"].append(("contains", self, x, result, exp[0]))
        return True

    def and_ok(self, other, result):
        _state["evals"] += 1
        if self.file != other.file:
            ok = result is None
            exp = None
        else:
            s = max(_key(self.start), _key(other.start))
            e = min(_key(self.end), _key(other.end))
            if s > e:
                ok, exp = result is None, None
            elif s == e:
                # touching or empty overlap: None or the empty span at that point
                ok = result is None or (_key(result.start) == s and _key(result.end) == e)
                exp = "None|empty"
            else:
                ok = (result is not None and result.file == self.file
                      and _key(result.start) == s and _key(result.end) == e)
                exp = (s, e)
        if not ok:
            _state["viol"].append(("and", self, other, result, exp))
        return True

    sp.Span.__contains__ = icontract.ensure(contains_ok, error=PostBroken)(Span.__contains__)
    sp.Span.__and__ = icontract.ensure(and_ok, error=PostBroken)(Span.__and__)


def _all():
    from guppylang_internals.span import Loc, Span

    locs = [Loc(f, l, c) for f in FILES for l in LINES for c in COLS]
    spans = [Span(a, b) for a in locs for b in locs if a.file == b.file and a <= b]
    return locs, spans


def _fmt(x):
    from guppylang_internals.span import Span

    if isinstance(x, Span):
        return f"Span({x.file}:{x.start.line}:{x.start.column}-{x.end.line}:{x.end.column})"
    if x is None:
        return "None"
    return f"Loc({x.file}:{x.line}:{x.column})"


def run_case(ctx, rng, idx, params, tier):
    locs, spans = _all()
    _state["viol"].clear()
    before = _state["evals"]
    pairs = 0
    fps = set()
    work = list(itertools.product(spans, spans)) + list(itertools.product(locs, spans))
    for n, (a, b) in enumerate(work):
        if n % NSHARDS != idx:
            continue
        pairs += 1
        isloc = not hasattr(a, "start")
        _ = a in b
        if not isloc:
            _ = a & b
            if a.file == b.file:
                fps.add("span:" + _rel(_key(a.start), _key(a.end), _key(b.start), _key(b.end)))
            else:
                fps.add("span:other-file")
        else:
            fps.add("loc:" + ("other-file" if a.file != b.file else
                              _rel(_key(a), _key(a), _key(b.start), _key(b.end))))
    # churn phase: short-lived spans over a wider coordinate range, built, queried (twice) and dropped
    # again, so object identities / hashes of dead spans are reused by later, unrelated ones
    from guppylang_internals.span import Loc, Span

    churn = 0
    for n in range(CHURN):
        f1 = rng.choice(FILES)
        f2 = f1 if rng.random() < 0.85 else rng.choice(FILES)
        ks = sorted((rng.choice([1, 2, 9, 10, 99, 100]), rng.choice([0, 1, 7, 8, 79, 80, 120])) for _ in range(4))
        if rng.random() < 0.5:
            rng.shuffle(ks)
        a = Span(Loc(f1, *min(ks[0], ks[1])), Loc(f1, *max(ks[0], ks[1])))
        b = Span(Loc(f2, *min(ks[2], ks[3])), Loc(f2, *max(ks[2], ks[3])))
        r1 = a & b
        _ = a in b
        _ = b in a
        _ = Loc(f1, *ks[2]) in a
        r2 = a & b
        if r1 != r2:
            _state["viol"].append(("and", a, b, r2, f"same query answered {_fmt(r1)} before"))
        churn += 1
        if f1 == f2:
            fps.add("churn:" + _rel(_key(a.start), _key(a.end), _key(b.start), _key(b.end)))
        del a, b, r1, r2
    violations = []
    for op, a, b, got, exp in _state["viol"]:
        if a.file != b.file:
            cls = "other-file"
        elif hasattr(b, "start"):
            # contains(self=a, x=b): class of x relative to self
            cls = _rel(_key(b.start), _key(b.end), _key(a.start), _key(a.end))
        else:
            cls = "loc-" + _rel(_key(b), _key(b), _key(a.start), _key(a.end))
        violations.append({
            "mech": f"C30:{op}:{cls}",
            "witness": {"op": op, "self": _fmt(a), "arg": _fmt(b), "got": _fmt(got) if op == "and" else got,
                        "expected": str(exp)},
        })
    rec = {
        "status": "violated" if violations else "held",
        "fp": f"shard{idx}",
        "counters": {"pairs_checked": pairs, "churn_pairs_checked": churn,
                     "contract_evaluations": _state["evals"] - before},
        "sets": {"relation_classes": sorted(fps)},
        "sample": {"shard": idx, "first_pair": [_fmt(work[idx][0]), _fmt(work[idx][1])]},
    }
    if violations:
        rec["violations"] = violations[:200]
    return rec


def replay(ctx, w):
    from guppylang_internals.span import Loc, Span
    import re

    def parse(s):
        m = re.match(r"Span\((.*?):(\d+):(\d+)-(\d+):(\d+)\)", s)
        if m:
            f, l1, c1, l2, c2 = m.groups()
            return Span(Loc(f, int(l1), int(c1)), Loc(f, int(l2), int(c2)))
        m = re.match(r"Loc\((.*?):(\d+):(\d+)\)", s)
        f, l, c = m.groups()
        return Loc(f, int(l), int(c))

    _state["viol"].clear()
    a, b = parse(w["self"]), parse(w["arg"])
    if w["op"] == "contains":
        _ = b in a
    else:
        _ = a & b
    return {"status": "violated" if _state["viol"] else "held", "observed": str(_state["viol"])}
