"""C12 — Type inference finds an instantiation exactly when one exists.

A postcondition contract on the real `unify` (attached by rebinding the module attribute, so the
recursive calls go through it too and are counted) is driven by generated pairs of types; the
oracle is an independent Robinson unifier on an own term representation.  Partial solutions are the
outputs of previous unify calls on related pairs (the form real callers pass)."""
from __future__ import annotations

import hashlib

from vf.gen import gtypes

LEVEL = "exploration"
LEVEL_TEXT = ("Random testing of the real unifier against an independent Robinson unifier: success iff "
              "unifiable; the returned substitution (applied to a fixpoint, with cycle detection) makes "
              "both sides equal and is a variant of the reference mgu; nested-call count bounded "
              "(logical step bound instead of 'always terminates'). Plus generic-call programs through "
              "the real checker.")
LEVEL_NOTE = ("Trusted: O-unify (60 lines). Ownership flags vary only on inputs of concrete linear type "
              "(qubit); flags on non-linear inputs are not part of identity, as in the statement. "
              "'Always terminates' is restated as a step bound of 50*(|s|+|t|+|subst|) nested calls.")
TECHNIQUE = "runtime contract (postcondition + call counter) on the real unify, judged by an independent Robinson unifier"
RULE = ("chains of 1-4 related pairs per case over numeric/bool/None/str/qubit, tuples, functions (with "
        "owned/borrowed qubit inputs), array/option/list, generic structs, <=5 existential type vars, "
        "<=2 const vars, bound vars; second terms are derived from the first by variable abstraction / "
        "subterm replacement so that about half unify; every fourth case is a module of 14 generic "
        "call sites (declared generic functions over T, U, n with tuple/array patterns; arguments "
        "as names and tuple displays; synthesis, annotated-target and explicit-application forms) "
        "whose accept/reject must equal first-order matching. distinct = (shape s, shape t) pairs")
FLOORS = {"generic_call_sites": 100, "generic_calls_expected_accept": 20, "generic_calls_expected_reject": 20,
          "unify_calls_top": 1000, "contract_evaluations": 2000, "expected_success": 100,
          "expected_failure": 100}

ENV = None
STATE = {"nested": 0, "evals": 0}


def plan(tier, seed):
    n = 6000 if tier == "quick" else 60000
    return {"n_cases": n, "floors": {"evaluations": n // 2}}


def worker_init(ctx, job):
    global ENV
    import guppylang_internals.tys.ty as tymod

    ENV = gtypes.TyEnv(ctx)
    orig = tymod.unify

    def counted(s, t, subst):
        STATE["nested"] += 1
        STATE["evals"] += 1
        if STATE["nested"] > STATE.get("limit", 10**9):
            raise StepBound()
        return orig(s, t, subst)

    counted.__wrapped__ = orig
    tymod.unify = counted  # recursive calls resolve the module global -> counted too
    # rebind everywhere it was imported by name
    import sys

    for m in list(sys.modules.values()):
        if m and getattr(m, "__name__", "").startswith("guppylang") and getattr(m, "unify", None) is orig:
            m.unify = counted


class StepBound(Exception):
    pass


class OutOfScope(Exception):
    pass


# ---------------------------------------------------------------------------------- O-unify
def is_var(t):
    return t[0] in ("var", "cvar")


def walk(t, s):
    while is_var(t) and t in s:
        t = s[t]
    return t


def occurs(v, t, s):
    t = walk(t, s)
    if t == v:
        return True
    return any(occurs(v, c, s) for c in children(t))


def children(t):
    k = t[0]
    if k == "tuple":
        return list(t[1])
    if k == "fn":
        return [a for a, _ in t[1]] + [t[2]]
    if k in ("array", "farray"):
        return [t[1], t[2]]
    if k in ("option", "list"):
        return [t[1]]
    if k == "struct":
        return list(t[2])
    return []


def lin(a):
    """Input types for which ownership flags are part of identity: qubit and linear variables."""
    return a == ("qubit",) or (a[0] == "var" and len(a) > 2 and not a[2] and not a[3])


def label(t):
    k = t[0]
    if k == "fn":
        return ("fn", len(t[1]))
    if k == "tuple":
        return ("tuple", len(t[1]))
    if k == "struct":
        return ("struct", t[1])
    if k in ("array", "farray", "option", "list"):
        return (k,)
    return t  # leaves incl. bound vars and const values


def o_unify(a, b, s):
    """Robinson with triangular substitution. Returns new subst or None."""
    a, b = walk(a, s), walk(b, s)
    if a == b:
        return s
    if is_var(a):
        if occurs(a, b, s):
            return None
        if (a[0] == "cvar") != (b[0] in ("cvar", "k", "bcvar")):
            return None
        if a[0] == "var" and len(a) == 2 and b[0] != "var":
            # a copyable+droppable variable bound to a type that is not: violates the variable's
            # bound, which real callers check separately -> outside the property's quantifier
            c, d = gtypes.copy_drop(resolve(b, s))
            if not (c and d):
                raise OutOfScope()
        return {**s, a: b}
    if is_var(b):
        return o_unify(b, a, s)
    if label(a) != label(b):
        return None
    if a[0] == "fn":
        # linear inputs must agree on ownership flags
        for (x, fx), (y, fy) in zip(a[1], b[1]):
            if lin(walk(x, s)) and lin(walk(y, s)) and fx != fy:
                return None
    ca, cb = children(a), children(b)
    if len(ca) != len(cb):
        return None
    for x, y in zip(ca, cb):
        s = o_unify(x, y, s)
        if s is None:
            return None
    return s


def resolve(t, s, depth=0):
    if depth > 60:
        raise RecursionError
    t = walk(t, s)
    k = t[0]
    if k == "tuple":
        return ("tuple", tuple(resolve(x, s, depth + 1) for x in t[1]))
    if k == "fn":
        return ("fn", tuple((resolve(a, s, depth + 1), f) for a, f in t[1]), resolve(t[2], s, depth + 1))
    if k in ("array", "farray"):
        return (k, resolve(t[1], s, depth + 1), resolve(t[2], s, depth + 1))
    if k in ("option", "list"):
        return (k, resolve(t[1], s, depth + 1))
    if k == "struct":
        return ("struct", t[1], tuple(resolve(x, s, depth + 1) for x in t[2]))
    return t


def strip_flags(t):
    """Identity modulo ownership flags on non-linear inputs."""
    k = t[0]
    if k == "fn":
        return ("fn", tuple((strip_flags(a), f if lin(a) else "") for a, f in t[1]),
                strip_flags(t[2]))
    if k == "tuple":
        return ("tuple", tuple(strip_flags(x) for x in t[1]))
    if k in ("array", "farray"):
        return (k, strip_flags(t[1]), t[2])
    if k in ("option", "list"):
        return (k, strip_flags(t[1]))
    if k == "struct":
        return ("struct", t[1], tuple(strip_flags(x) if x[0] not in ("k", "cvar", "bcvar") else x
                                      for x in t[2]))
    return t


def variant(xs, ys):
    """Are the term tuples equal up to a bijective renaming of variables?"""
    fwd, bwd = {}, {}

    def go(a, b):
        if is_var(a) or is_var(b):
            if not (is_var(a) and is_var(b)) or a[0] != b[0]:
                return False
            if fwd.setdefault(a, b) != b or bwd.setdefault(b, a) != a:
                return False
            return True
        if label(a) != label(b):
            return False
        ca, cb = children(a), children(b)
        return len(ca) == len(cb) and all(go(x, y) for x, y in zip(ca, cb))

    return len(xs) == len(ys) and all(go(a, b) for a, b in zip(xs, ys))


def tsize(t):
    return 1 + sum(tsize(c) for c in children(t))


# ------------------------------------------------------------------------------- generation
def all_subterm_paths(t, path=()):
    out = [path]
    k = t[0]
    if k == "tuple":
        for i, x in enumerate(t[1]):
            out += all_subterm_paths(x, path + (("tuple", i),))
    elif k == "fn":
        for i, (a, _) in enumerate(t[1]):
            out += all_subterm_paths(a, path + (("fnin", i),))
        out += all_subterm_paths(t[2], path + (("fnout",),))
    elif k in ("array", "farray"):
        out += all_subterm_paths(t[1], path + (("el",),))
        out.append(path + (("len",),))
    elif k in ("option", "list"):
        out += all_subterm_paths(t[1], path + (("el",),))
    elif k == "struct":
        for i, x in enumerate(t[2]):
            if gtypes.STRUCTS[t[1]][i][0] == "type":
                out += all_subterm_paths(x, path + (("sarg", i),))
            else:
                out.append(path + (("sarg", i),))
    return out


def get_at(t, path):
    for step in path:
        if step[0] == "tuple":
            t = t[1][step[1]]
        elif step[0] == "fnin":
            t = t[1][step[1]][0]
        elif step[0] == "fnout":
            t = t[2]
        elif step[0] == "el":
            t = t[1]
        elif step[0] == "len":
            t = t[2]
        elif step[0] == "sarg":
            t = t[2][step[1]]
    return t


def replace_at(t, path, new):
    if not path:
        return new
    step, rest = path[0], path[1:]
    if step[0] == "tuple":
        xs = list(t[1])
        xs[step[1]] = replace_at(xs[step[1]], rest, new)
        return ("tuple", tuple(xs))
    if step[0] == "fnin":
        ins = list(t[1])
        a, f = ins[step[1]]
        na = replace_at(a, rest, new)
        ins[step[1]] = (na, f if lin(na) else "")
        return ("fn", tuple(ins), t[2])
    if step[0] == "fnout":
        return ("fn", t[1], replace_at(t[2], rest, new))
    if step[0] == "el":
        return (t[0], replace_at(t[1], rest, new), *t[2:])
    if step[0] == "len":
        return (t[0], t[1], new)
    if step[0] == "sarg":
        xs = list(t[2])
        xs[step[1]] = replace_at(xs[step[1]], rest, new)
        return ("struct", t[1], tuple(xs))
    raise AssertionError(step)


def derive(rng, s, gen):
    """A second term related to `s`: abstract subterms to variables / replace subterms."""
    t = s
    for _ in range(rng.randint(1, 3)):
        paths = all_subterm_paths(t)
        p = rng.choice(paths)
        cur = get_at(t, p)
        is_const = cur[0] in ("k", "cvar", "bcvar")
        c = rng.random()
        if is_const:
            new = ("cvar", rng.randrange(2)) if c < 0.6 else ("k", rng.randint(0, 4))
        elif c < 0.55:
            if cur == ("qubit",) and p and p[-1][0] == "fnin":
                # an inference variable standing for a linear input must itself be linear, otherwise
                # the pair is outside "assignments respecting the variables' bounds"
                new = ("var", 5 + rng.randrange(2), False, False)
            else:
                new = ("var", rng.randrange(5))
        elif c < 0.8:
            new = gen.ty(rng.randint(0, 2))
        else:
            new = cur
            # flip an ownership flag on a qubit input if there is one
            if cur[0] == "fn" and any(a == ("qubit",) for a, _ in cur[1]):
                ins = [(a, ("owned" if f == "" else "") if a == ("qubit",) else f) for a, f in cur[1]]
                new = ("fn", tuple(ins), cur[2])
        t = replace_at(t, p, new)
    return t


# ------------------------------------------------------------------------------ workload B
# Generic-call programs through the real checker.  Argument types are ground, so "an instantiation
# of the parameters makes the arguments fit" is first-order matching with consistent bindings —
# decided here by a 15-line matcher.  Ground types avoid nat/float, so no implicit coercion can make
# a non-matching call acceptable.

B_GROUND = [("int",), ("bool",), ("tuple", ("int",), ("bool",)), ("tuple", ("int",), ("int",)),
            ("tuple", ("bool",), ("bool",)), ("tuple", ("tuple", ("int",), ("int",)), ("bool",)),
            ("array", ("int",), 2), ("array", ("bool",), 2), ("array", ("int",), 3)]
B_PATTERNS = [("var", "T"), ("var", "U"), ("tuple", ("var", "T"), ("var", "T")),
              ("tuple", ("var", "T"), ("var", "T")), ("tuple", ("var", "U"), ("var", "T"), ("var", "U")),
              ("tuple", ("var", "T"), ("tuple", ("var", "T"), ("var", "T"))),
              ("tuple", ("var", "T"), ("var", "U")), ("tuple", ("var", "U"), ("var", "T")),
              ("tuple", ("var", "T"), ("int",)), ("tuple", ("tuple", ("var", "T"), ("var", "U")), ("var", "T")),
              ("tuple", ("tuple", ("var", "T"), ("var", "T")), ("var", "U")),
              ("array", ("var", "T"), 2), ("array", ("var", "T"), "n"), ("array", ("var", "U"), "n"),
              ("int",), ("bool",)]


def b_code(t):
    k = t[0]
    if k in ("int", "bool"):
        return k
    if k == "var":
        return t[1]
    if k == "tuple":
        return "tuple[" + ", ".join(b_code(e) for e in t[1:]) + "]"
    return f"array[{b_code(t[1])}, {t[2]}]"


def b_copyable(t):
    return t[0] != "array" and all(b_copyable(e) for e in t[1:] if isinstance(e, tuple))


def b_match(pat, g, env):
    """One-way matching of a pattern against a ground type; env maps type/nat variables."""
    k = pat[0]
    if k == "var":
        if not b_copyable(g):
            return False  # T, U are declared copyable + droppable
        if pat[1] in env:
            return env[pat[1]] == g
        env[pat[1]] = g
        return True
    if k != g[0] or len(pat) != len(g):
        return False
    if k == "array":
        n = pat[2]
        if isinstance(n, str):
            if n in env and env[n] != g[2]:
                return False
            env[n] = g[2]
        elif n != g[2]:
            return False
        return b_match(pat[1], g[1], env)
    return all(b_match(p_, g_, env) for p_, g_ in zip(pat[1:], g[1:]))


def b_inst(pat, env):
    k = pat[0]
    if k == "var":
        return env[pat[1]]
    if k == "array":
        return ("array", b_inst(pat[1], env), env[pat[2]] if isinstance(pat[2], str) else pat[2])
    if k == "tuple":
        return ("tuple", *[b_inst(e, env) for e in pat[1:]])
    return pat


def b_vars(pat, acc):
    if pat[0] == "var":
        acc.add(pat[1])
    elif pat[0] == "array":
        if isinstance(pat[2], str):
            acc.add(pat[2])
        b_vars(pat[1], acc)
    else:
        for e in pat[1:]:
            if isinstance(e, tuple):
                b_vars(e, acc)
    return acc


def b_perturb_leaf(rng, g):
    if g[0] == "tuple":
        j = rng.randrange(1, len(g))
        return (*g[:j], b_perturb_leaf(rng, g[j]), *g[j + 1:])
    if g[0] == "array":
        return ("array", g[1], 5 - g[2]) if rng.random() < 0.5 else ("array", b_perturb_leaf(rng, g[1]), g[2])
    return rng.choice([x for x in [("int",), ("bool",), ("tuple", ("int",), ("int",))] if x != g])


def b_program(rng, nsites=14):
    """-> (module text, [(site function name, expected accept, description)])"""
    L = ["from guppylang import guppy", "from guppylang.std.builtins import array, owned", "",
         'T = guppy.type_var("T")', 'U = guppy.type_var("U")', 'n = guppy.nat_var("n")', ""]
    sites = []
    copy_ground = [g for g in B_GROUND if b_copyable(g)]
    for k in range(nsites):
        nparams = rng.randint(1, 3)
        pats = [rng.choice(B_PATTERNS) for _ in range(nparams)]
        pvars = set()
        for p_ in pats:
            b_vars(p_, pvars)
        ret_cands = [p_ for p_ in B_PATTERNS if b_vars(p_, set()) <= pvars and p_[0] != "array"]
        ret = rng.choice(ret_cands)
        L.append("@guppy.declare")
        L.append(f"def g{k}({', '.join(f'a{i}: {b_code(p_)}' for i, p_ in enumerate(pats))}) -> {b_code(ret)}: ...")
        L.append("")
        # argument ground types: an instance of the patterns, perturbed half of the time
        env0 = {"T": rng.choice(copy_ground), "U": rng.choice(copy_ground), "n": rng.choice([2, 3])}
        args = [b_inst(p_, env0) for p_ in pats]
        r_ = rng.random()
        if r_ < 0.2:
            i = rng.randrange(nparams)
            args[i] = rng.choice(B_GROUND)
        elif r_ < 0.55:
            # change one leaf of one argument type (so mismatches sit *inside* tuple displays)
            i = rng.randrange(nparams)
            args[i] = b_perturb_leaf(rng, args[i])
        env = {}
        ok = all(b_match(p_, a, env) for p_, a in zip(pats, args))
        # site function: one parameter per leaf of every argument expression
        params, exprs = [], []

        def build(g, depth):
            if g[0] == "tuple" and rng.random() < (0.8 if depth == 0 else 0.5):
                return "(" + ", ".join(build(e, depth + 1) for e in g[1:]) + ")"
            name = f"p{len(params)}"
            params.append(f"{name}: {b_code(g)}")
            return name

        for a in args:
            exprs.append(build(a, 0))
        call = f"g{k}({', '.join(exprs)})"
        mode = rng.choice(["synth", "synth", "check", "check_wrong", "apply"])
        if mode == "apply" and ok and all(isinstance(v, str) for v in pvars) and "n" not in pvars and pvars:
            # explicit type application in declaration order of the variables' first use
            order = []
            for p_ in pats:
                for v in _b_order(p_):
                    if v not in order:
                        order.append(v)
            call = f"g{k}[{', '.join(b_code(env[v]) for v in order)}]({', '.join(exprs)})"
            body = f"    r = {call}"
        elif mode == "check" and ok:
            body = f"    r: {b_code(b_inst(ret, env))} = {call}"
        elif mode == "check_wrong" and ok:
            want = b_inst(ret, env)
            wrong = rng.choice([g for g in copy_ground if g != want])
            body = f"    r: {b_code(wrong)} = {call}"
            ok = False
        else:
            body = f"    r = {call}"
        L.append("@guppy")
        L.append(f"def site{k}({', '.join(params)}) -> None:")
        L.append(body)
        L.append("")
        sites.append((f"site{k}", ok, f"{[b_code(p_) for p_ in pats]} <- {[b_code(a) for a in args]} [{mode}]"))
    return "\n".join(L) + "\n", sites


def _b_order(pat):
    if pat[0] == "var":
        yield pat[1]
    elif pat[0] == "array":
        yield from _b_order(pat[1])
    elif pat[0] == "tuple":
        for e in pat[1:]:
            yield from _b_order(e)


def run_case_b(ctx, rng, idx):
    from vf import ctx as C

    text, sites = b_program(rng)
    ld = ctx.load(text, "gencall")
    viols = []
    counters = {"generic_call_sites": 0, "generic_calls_expected_accept": 0, "generic_calls_expected_reject": 0}
    shapes = set()
    for name, ok, desc in sites:
        counters["generic_call_sites"] += 1
        counters["generic_calls_expected_accept" if ok else "generic_calls_expected_reject"] += 1
        shapes.add("B:" + hashlib.sha1(desc.encode()).hexdigest()[:12])
        try:
            getattr(ld.module, name).check()
            got = True
        except BaseException as e:
            if C.raised_in_harness(e):
                raise
            if not C.is_guppy_error(e):
                viols.append({"mech": "C12:generic-call-crash:" + C.innermost_repo_frame(e),
                              "witness": {"text": text, "site": name, "desc": desc}})
                continue
            got = False
        if got != ok:
            viols.append({"mech": "C12:generic-call-" + ("accepted-without-instantiation" if got else
                                                           "rejected-although-instantiation-exists"),
                          "witness": {"text": text, "site": name, "desc": desc}})
    seen = set()
    uniq = [v for v in viols if not (v["mech"] in seen or seen.add(v["mech"]))]
    rec = {"status": "violated" if uniq else "held", "fp": f"caseB{idx}", "counters": counters,
           "sets": {"pair_shapes": sorted(shapes)}}
    if uniq:
        rec["violations"] = uniq[:6]
    if idx == 3:
        rec["sample"] = {"generic_call_program": text[:1500]}
    return rec


def run_case(ctx, rng, idx, params, tier):
    from vf import ctx as C
    import guppylang_internals.tys.ty as tymod

    if idx % 4 == 3:
        return run_case_b(ctx, rng, idx)
    ENV.refresh()
    viols = []
    counters = {"unify_calls_top": 0, "expected_success": 0, "expected_failure": 0,
                "max_nested_calls": 0}
    shapes = set()
    for _chain in range(40):
        gen = gtypes.TGen(rng, vars_=5, cvars=2, bvars=[(0, True, True), (1, False, False)], bcvars=1,
                          lists=True, strs=True)
        o_s = {}
        r_s = {}
        allvars = set()
        for step in range(rng.randint(1, 4)):
            a = gen.ty(rng.randint(1, 4))
            b = derive(rng, a, gen)
            if o_s and rng.random() < 0.35:
                # a pair built from the partial solution itself: a solved variable against an
                # unsolved variable (or a small term around one) that its own solution mentions, or
                # two solved variables — the occurs check has to look through prior solutions
                solved = sorted(v for v in o_s if v[0] == "var")
                if solved:
                    v = rng.choice(solved)
                    inner = sorted({u for u in subterms(resolve_safe(v, o_s)) if is_var(u) and u[0] == "var"
                                    and u not in o_s})
                    if inner and rng.random() < 0.7:
                        u = rng.choice(inner)
                        a, b = rng.choice([(u, v), (("tuple", (u,)), v), (u, ("tuple", (v,))),
                                           (("tuple", (u, v)), ("tuple", (v, u)))])
                    elif len(solved) >= 2:
                        a, b = rng.sample(solved, 2)
            if rng.random() < 0.5:
                a, b = b, a
            try:
                ra, rb = ENV.ty(a), ENV.ty(b)
            except Exception as e:
                if C.raised_in_harness(e):
                    raise
                break  # construction refused (e.g. higher-rank); not a unify matter
            try:
                exp = o_unify(a, b, dict(o_s))
            except (OutOfScope, RecursionError):
                counters["out_of_scope_bound_violating"] = counters.get("out_of_scope_bound_violating", 0) + 1
                break
            counters["unify_calls_top"] += 1
            counters["expected_success" if exp is not None else "expected_failure"] += 1
            shapes.add(hashlib.sha1(repr((gtypes.shape(a), gtypes.shape(b))).encode()).hexdigest()[:12])
            STATE["nested"] = 0
            STATE["limit"] = 50 * (tsize(a) + tsize(b) + sum(tsize(v) + 1 for v in o_s.values()) + 4)
            wit = {"s": repr(a), "t": repr(b), "prior_subst": repr(sorted(o_s.items())), "step": step}
            try:
                got = tymod.unify(ra, rb, dict(r_s))
            except StepBound:
                viols.append({"mech": "C12:step-bound-exceeded", "witness": wit})
                break
            except RecursionError:
                viols.append({"mech": "C12:unbounded-recursion", "witness": wit})
                break
            except BaseException as e:
                if C.raised_in_harness(e):
                    raise
                viols.append({"mech": "C12:unify-raised:" + C.innermost_repo_frame(e), "witness": wit})
                break
            counters["max_nested_calls"] = max(counters["max_nested_calls"], STATE["nested"])
            if (got is None) != (exp is None):
                if got is not None:
                    # distinguish the occurs-check-through-prior-solution mechanism
                    try:
                        g_s = {ENV.term(k): ENV.term(v) for k, v in got.items()}
                        resolve(a, g_s)
                        resolve(b, g_s)
                        mech = "C12:unified-non-unifiable"
                    except RecursionError:
                        mech = "C12:cyclic-substitution-occurs-check-skips-prior-solutions"
                else:
                    mech = "C12:failed-on-unifiable"
                wit["observed"] = "success" if got is not None else "failure"
                viols.append({"mech": mech, "witness": wit})
                break
            if got is None:
                break
            g_s = {ENV.term(k): ENV.term(v) for k, v in got.items()}
            try:
                la, lb = resolve(a, g_s), resolve(b, g_s)
            except RecursionError:
                viols.append({"mech": "C12:cyclic-substitution", "witness": wit})
                break
            if strip_flags(la) != strip_flags(lb):
                wit["after"] = [repr(la), repr(lb)]
                viols.append({"mech": "C12:substitution-does-not-equate", "witness": wit})
                break
            for t_ in (a, b):
                allvars |= {v for v in subterms(t_) if is_var(v)}
            vs = sorted(allvars)
            if not variant([strip_flags(resolve(v, g_s)) for v in vs],
                           [strip_flags(resolve(v, exp)) for v in vs]):
                wit["real"] = repr(sorted(g_s.items()))
                wit["reference"] = repr(sorted(exp.items()))
                viols.append({"mech": "C12:not-most-general", "witness": wit})
                break
            o_s, r_s = exp, got
    counters["contract_evaluations"] = STATE["evals"]
    STATE["evals"] = 0
    seen = set()
    uniq = [v for v in viols if not (v["mech"] in seen or seen.add(v["mech"]))]
    rec = {"status": "violated" if uniq else "held", "fp": f"case{idx}", "counters": counters,
           "sets": {"pair_shapes": sorted(shapes)}}
    if uniq:
        rec["violations"] = uniq[:10]
    if idx < 2:
        g = gtypes.TGen(rng, vars_=5, cvars=2)
        a = g.ty(3)
        rec["sample"] = {"s": repr(a), "t": repr(derive(rng, a, g))}
    return rec


def resolve_safe(t, s):
    try:
        return resolve(t, s)
    except RecursionError:
        return t


def subterms(t):
    yield t
    for c in children(t):
        yield from subterms(c)


def replay(ctx, w):
    import ast
    import guppylang_internals.tys.ty as tymod

    ENV.refresh()
    a, b = ast.literal_eval(w["s"]), ast.literal_eval(w["t"])
    prior = dict(ast.literal_eval(w["prior_subst"]))
    # rebuild the prior real substitution by replaying the reference one
    r_s = {ENV.ty(k) if k[0] == "var" else ENV.const(k): (ENV.ty(v) if v[0] not in ("k", "cvar", "bcvar") else ENV.const(v))
           for k, v in prior.items()}
    exp = o_unify(a, b, dict(prior))
    STATE["nested"] = 0
    STATE["limit"] = 100000
    try:
        got = tymod.unify(ENV.ty(a), ENV.ty(b), r_s)
    except RecursionError:
        return {"status": "violated", "observed": "RecursionError"}
    same = (got is None) == (exp is None)
    return {"status": "held" if same else "violated", "expected": "success" if exp is not None else "failure",
            "observed": "success" if got is not None else "failure"}
