"""C19 — Array access is bounds-safe and alias-free.

Operation scripts over int arrays (len 0-6) and qubit arrays (len 1-4) with *runtime* indices in
[-n-2, n+2]: read, write, augmented write, two simultaneous element borrows, unpacking (plain and
starred), iteration, comprehension, copy().  Oracle: a list model restricted to 0 <= i < n; any
other index must panic (earlier results intact); lending the same element twice must panic."""
from __future__ import annotations

LEVEL = "exploration"
LEVEL_TEXT = ("Differential execution of generated array scripts on the real emulator against a list "
              "model with explicit panic expectations: exactly-element-i effects for in-range indices, "
              "panic for every other index (negative included) and for double lending of one element.")
LEVEL_NOTE = ("Trusted: the list model (Python lists, no negative indexing); X/CX-only qubit model for "
              "element borrows; adapter + lowering + installed selene.")
TECHNIQUE = "reference-model monitor (list model with panic expectations) over emulator result streams"
RULE = ("scripts of 4-10 ops on one int array (len 0-6, distinct contents) or one qubit array (len 1-4): "
        "rd(i), wr(i,v), aug(i,v), swap-through-two-reads, cx(qs[i],qs[j]), x(qs[i]), unpack/starred "
        "unpack, for-iteration, comprehension, copy+mutate; indices are function arguments drawn from "
        "[-n-2, n+2]. distinct = (op kind, index class) sequences")
FLOORS = {"scripts_emulated": 20, "expected_panics": 5, "in_range_accesses": 50}

HDR = '''from guppylang import guppy
from guppylang.std.builtins import result, array, owned
from guppylang.std.quantum import qubit, x, cx, measure, discard

'''


def plan(tier, seed):
    n = 260 if tier == "quick" else 6000
    return {"n_cases": n, "floors": {"evaluations": n // 3}}


def idx_class(i, n):
    if 0 <= i < n:
        return "in"
    return "neg" if i < 0 else "high"


def build_int(rng):
    n = rng.randint(0, 6)
    vals = rng.sample([2, 3, 5, 7, 11, 13, 17, 19, 23, 29], n)
    ty = f"array[int, {n}]"
    fns = (f"@guppy\ndef rd(xs: {ty}, i: int) -> int:\n    return xs[i]\n\n"
           f"@guppy\ndef wr(xs: {ty}, i: int, v: int) -> None:\n    xs[i] = v\n\n"
           f"@guppy\ndef aug(xs: {ty}, i: int, v: int) -> None:\n    xs[i] += v\n\n")
    lines = [f"    xs = array({', '.join(map(str, vals))})" if n else "    xs: array[int, 0] = array()"]
    model = list(vals)
    exp = []
    kinds = []
    panic = False
    consumed = False
    counters = {"in_range_accesses": 0}
    for k in range(rng.randint(4, 10)):
        c = rng.randrange(10)
        i = rng.randint(-n - 2, n + 2) if rng.random() < 0.2 else (rng.randrange(n) if n else 0)
        if c <= 2:
            lines.append(f'    result("r{k}", rd(xs, {i}))')
            kinds.append(f"rd:{idx_class(i, n)}")
            if 0 <= i < n:
                exp.append((f"r{k}", model[i]))
                counters["in_range_accesses"] += 1
            else:
                panic = True
        elif c <= 4:
            v = rng.randint(30, 99)
            lines.append(f"    wr(xs, {i}, {v})")
            kinds.append(f"wr:{idx_class(i, n)}")
            if 0 <= i < n:
                model[i] = v
                counters["in_range_accesses"] += 1
            else:
                panic = True
        elif c == 5:
            v = rng.randint(1, 9)
            lines.append(f"    aug(xs, {i}, {v})")
            kinds.append(f"aug:{idx_class(i, n)}")
            if 0 <= i < n:
                model[i] += v
                counters["in_range_accesses"] += 1
            else:
                panic = True
        elif c == 6:
            lines.append("    ys = xs.copy()")
            if n:
                lines.append("    ys[0] = 1000")
            cp = list(model)
            if n:
                cp[0] = 1000
                lines.append('    result("ys", ys)')
                lines.append('    result("xs_after_copy", xs)')
                exp.append(("ys", cp))
                exp.append(("xs_after_copy", list(model)))
            else:
                lines.append('    result("yslen", len(ys))')
                exp.append(("yslen", 0))
            kinds.append("copy")
        elif c == 7:
            lines.append(f"    zs = array(e * 2 + 1 for e in xs.copy())")
            if n:
                lines.append('    result("zs", zs)')
                exp.append(("zs", [e * 2 + 1 for e in model]))
            else:
                lines.append('    result("zslen", len(zs))')
                exp.append(("zslen", 0))
            kinds.append("comprehension")
        elif c == 8:
            lines.append("    for e in xs.copy():\n        result(\"it\", e)")
            exp += [("it", e) for e in model]
            kinds.append("iterate")
        else:
            # unpack consumes xs: last op
            if n >= 2 and rng.random() < 0.7:
                # the rest array is reported element-wise: whole-array result/copy of the offset
                # array a starred unpack yields is mishandled by the installed QIS compiler (same
                # garbage with the installed guppylang 1.0.4), which is not /repo's doing
                def rep(rest):
                    ls = [f'    result("um{j}", um[{j}])' for j in range(len(rest))]
                    ls.append('    result("umlen", len(um))')
                    return ls, [(f"um{j}", rest[j]) for j in range(len(rest))] + [("umlen", len(rest))]

                # asymmetric numbers of targets before / after the star; right-hand side is the array
                # itself or the tuple of its elements (a different unpacking path in the compiler)
                nl = rng.randint(0, min(2, n - 1))
                nr = rng.randint(0, min(2, n - 1 - nl))
                if nl + nr == 0:
                    nl = 1
                rhs = "xs" if rng.random() < 0.5 else ", ".join(f"xs[{j}]" for j in range(n))
                lefts = [f"ul{j}" for j in range(nl)]
                rights = [f"ur{j}" for j in range(nr)]
                coincide = nl >= 1 and nr >= 1 and rng.random() < 0.35
                if coincide:
                    # a target on the left and one on the right name the same location (same
                    # variable, or the same slot of another array): assignment is left to right, so
                    # the right-hand one wins
                    if rng.random() < 0.5:
                        rights[-1] = lefts[0]
                    else:
                        lines.append("    zs = array(0, 0, 0)")
                        slot = rng.randrange(3)
                        lefts[0] = f"zs[{slot}]"
                        rights[-1] = f"zs[{slot}]"
                lines.append(f"    {', '.join(lefts + ['*um'] + rights)} = {rhs}")
                ls, ex = rep(model[nl:n - nr])
                final = {}
                for j, nm in enumerate(lefts):
                    final[nm] = model[j]
                for j, nm in enumerate(rights):
                    final[nm] = model[n - nr + j]
                for nm in dict.fromkeys(lefts + rights):
                    tag = nm.replace("[", "_").replace("]", "")
                    lines.append(f'    result("{tag}", {nm})')
                    exp.append((tag, final[nm]))
                lines += ls
                exp += ex
                kinds.append(("starred_unpack" if rhs == "xs" else "starred_unpack_of_tuple")
                             + ("_coinciding_targets" if coincide else ""))

            elif n >= 1:
                names = [f"e{j}" for j in range(n)]
                lines.append(f"    {', '.join(names)}{',' if n == 1 else ''} = xs")
                for j, nm in enumerate(names):
                    lines.append(f'    result("{nm}", {nm})')
                    exp.append((nm, model[j]))
                kinds.append("unpack")
            else:
                continue
            consumed = True
            break
        if panic:
            break
    if not panic and not consumed and n:
        lines.append('    result("final", xs)')
        exp.append(("final", list(model)))
    text = HDR + fns + "@guppy\ndef main() -> None:\n" + "\n".join(lines) + "\n"
    return text, exp, panic, kinds, 0, counters


def build_qubit(rng):
    n = rng.randint(1, 4)
    ty = f"array[qubit, {n}]"
    fns = (f"@guppy\ndef fx(qs: {ty}, i: int) -> None:\n    x(qs[i])\n\n"
           f"@guppy\ndef fcx(qs: {ty}, i: int, j: int) -> None:\n    cx(qs[i], qs[j])\n\n")
    lines = [f"    qs = array(qubit() for _ in range({n}))"]
    model = [0] * n
    kinds = []
    panic = False
    counters = {"in_range_accesses": 0}
    for k in range(rng.randint(3, 8)):
        i = rng.randint(-n - 1, n + 1) if rng.random() < 0.35 else rng.randrange(n)
        j = rng.randint(-n - 1, n + 1) if rng.random() < 0.2 else rng.randrange(n)
        if rng.random() < 0.5:
            lines.append(f"    fx(qs, {i})")
            kinds.append(f"x:{idx_class(i, n)}")
            if 0 <= i < n:
                model[i] ^= 1
                counters["in_range_accesses"] += 1
            else:
                panic = True
        else:
            lines.append(f"    fcx(qs, {i}, {j})")
            same = i == j
            kinds.append(f"cx:{idx_class(i, n)}:{idx_class(j, n)}:{'same' if same else 'diff'}")
            if 0 <= i < n and 0 <= j < n and not same:
                model[j] ^= model[i]
                counters["in_range_accesses"] += 2
            else:
                panic = True  # out of range, or the same element lent twice
                if same and 0 <= i < n:
                    counters["double_borrow_expected_panic"] = 1
        lines.append(f'    result("m", {k})')
        if panic:
            break
    exp = [("m", k) for k in range(len([l for l in lines if l.strip().startswith('result("m"')]))]
    if panic:
        exp = exp[:-1]
    else:
        lines.append("    for q in qs:\n        result(\"q\", measure(q))")
        exp += [("q", b) for b in model]
    if panic:
        # qubits leak on the panic path; the program is still well-typed only if qs is consumed
        lines.append("    for q in qs:\n        result(\"q\", measure(q))")
    text = HDR + fns + "@guppy\ndef main() -> None:\n" + "\n".join(lines) + "\n"
    return text, exp, panic, kinds, n, counters


def judge_text(ctx, text, exp, panic, nq):
    from vf import ctx as C
    from vf.gen import opy

    try:
        ld = ctx.load(text)
        pkg = ld.main.compile()
    except BaseException as e:
        if C.raised_in_harness(e):
            raise
        if C.is_guppy_error(e):
            try:
                msg = ctx.render(e)[:600]
            except Exception:
                msg = repr(e)
            return {"status": "discard", "fp": None, "detail": "guppy rejected: " + msg,
                    "counters": {"guppy_rejected": 1}}
        return {"status": "violated", "fp": "crash", "mech": "C19:compiler-crash:" + C.innermost_repo_frame(e),
                "witness": {"text": text, "error": C.short_tb(e)}}
    out = ctx.emulate(pkg, n_qubits=nq)
    got = [(t, opy.norm_value(v)) for t, v in out.stream()]
    expn = [(t, opy.norm_value(v)) for t, v in exp]
    rec = {"counters": {"scripts_emulated": 1, "expected_panics": int(panic)}}
    problem = None
    if panic:
        if out.panic is None:
            problem = "no-panic-on-bad-index-or-double-borrow"
        elif got != expn:
            problem = "results-before-panic-differ"
    else:
        if out.panic is not None:
            problem = "unexpected-panic"
        elif got != expn:
            problem = "wrong-element-effect"
    if problem:
        rec["status"] = "violated"
        rec["mech"] = f"C19:{problem}:{'qubit' if nq else 'int'}"
        rec["witness"] = {"text": text, "expected": expn, "expect_panic": panic, "observed": got,
                          "panic": out.panic, "nq": nq}
    else:
        rec["status"] = "held"
    return rec


def build_nested_overwrite(rng):
    """Element assignment on an array whose elements are themselves arrays (non-copyable but
    droppable): writing element i must replace exactly element i."""
    n = rng.randint(2, 4)
    rows = [[rng.randint(1, 9), rng.randint(10, 19)] for _ in range(n)]
    i = rng.randrange(n)
    new = [rng.randint(20, 29), rng.randint(30, 39)]
    lines = ["@guppy", "def main() -> None:",
             "    xs = array(" + ", ".join(f"array({a}, {b})" for a, b in rows) + ")",
             f"    xs[{i}] = array({new[0]}, {new[1]})"]
    exp = []
    rows[i] = new
    for k in range(n):
        lines.append(f'    result("r{k}", xs[{k}])')
        exp.append((f"r{k}", rows[k]))
    return HDR + "\n".join(lines) + "\n", exp, False, ["nested-row-overwrite"], 0, {"nested_overwrite_probes": 1}


def run_case(ctx, rng, idx, params, tier):
    if idx % 64 == 5:
        text, exp, panic, kinds, nq, counters = build_nested_overwrite(rng)
        rec = judge_text(ctx, text, exp, panic, nq)
        if rec["status"] == "violated" and rec["mech"].startswith("C19:unexpected-panic") and \
                "already contains an element" in str(rec["witness"].get("panic")):
            rec["mech"] = "C19:overwriting-an-occupied-non-copyable-element-panics"
        rec["fp"] = "nested-row-overwrite" if rec["status"] != "discard" else None
        if rec["status"] in ("held", "violated"):
            rec["counters"].update(counters)
        return rec
    if idx % 3 == 2:
        text, exp, panic, kinds, nq, counters = build_qubit(rng)
    else:
        text, exp, panic, kinds, nq, counters = build_int(rng)
    rec = judge_text(ctx, text, exp, panic, nq)
    rec["fp"] = rec.get("fp", "|".join(kinds)) if rec["status"] != "discard" else None
    if rec["status"] in ("held", "violated"):
        rec["fp"] = "|".join(kinds)
        rec["counters"].update(counters)
        rec["sets"] = {"op_kinds": sorted(set(kinds))}
        if idx < 3:
            rec["sample"] = {"program": text.split("def main")[1], "expect_panic": panic}
    return rec


def replay(ctx, w):
    return judge_text(ctx, w["text"], [tuple(x) for x in w["expected"]], w["expect_panic"], w.get("nq", 0))
