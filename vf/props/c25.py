"""C25 — Modifier blocks lower to the matching modifier operations.

Stacks of 1-4 modifiers (dagger / control(q...) / control(array) / power(k), with repetition, any
order) around bodies using captured qubits are compiled by /repo; the oracle walks the compiled
HUGR (hugr.model AST): the generated `__WithBlock__` function must contain exactly the block's
gate calls, the LoadFunction -> modifier ops -> CallIndirect chain must carry one op per modifier
with the right control arity and the exponent wired from the given expression, and the package
must validate (which covers the threading of captured qubits and controls)."""
from __future__ import annotations

import hashlib
import re

LEVEL = "exploration"
LEVEL_TEXT = ("Structural monitoring of compiled HUGR for generated modifier stacks: op chain, control "
              "arities, exponent wiring, body contents; V1+V2 validation for the threading of captured "
              "qubits and controls. Held on N stacks over M distinct modifier sequences.")
LEVEL_NOTE = ("Trusted: the walker over the hugr.model AST; the HUGR validators. Modifier semantics are "
              "not executed (no lowering for tket.modifier in the installed QIS compiler).")
TECHNIQUE = "structural monitor over compiled HUGR (modifier op chain, arities, wiring) + validator"
RULE = ("with-statements with 1-4 modifiers from {dagger, control(c), control(c1,c2), control(array3), "
        "power(literal), power(nat parameter), power(call borrowing a captured array)} in any order with repetition; bodies of 1-4 gate calls "
        "on 1-2 captured qubits (dagger-safe), in 60% of the cases mixed with calls of fully flagged "
        "declared functions taking captured classical values (int, float: copyable; int / bool "
        "arrays: affine). distinct = distinct modifier sequences")
FLOORS = {"stacks_compiled": 30, "modifier_ops_checked": 60}

HDR = '''from guppylang import guppy
from guppylang.std.builtins import array, owned, nat
from guppylang.std.quantum import qubit, h, x, z, s, t, cx, cz
dagger = object()
control = object()
power = object()

@guppy.declare
def cnt(a: array[int, 2]) -> nat: ...

@guppy.declare(control=True, dagger=True, power=True)
def rotk(q: qubit, k: int) -> None: ...

@guppy.declare(control=True, dagger=True, power=True)
def rotf(q: qubit, f: float, k: int) -> None: ...

@guppy.declare(control=True, dagger=True, power=True)
def tab(q: qubit, a: array[int, 2]) -> None: ...

@guppy.declare(control=True, dagger=True, power=True)
def tab2(a: array[bool, 3], q: qubit, k: int, b: array[int, 2]) -> None: ...

'''
GATES1 = ["h", "x", "z", "s", "t"]


def plan(tier, seed):
    n = 1000 if tier == "quick" else 12000
    return {"n_cases": n, "floors": {"evaluations": n // 3}}


def worker_init(ctx, job):
    from guppylang_internals.experimental import enable_experimental_features

    enable_experimental_features()


def build(rng):
    k = rng.randint(1, 4)
    mods = []
    free_ctrl = ["c1", "c2", "c3"]
    have_arr = True
    for _ in range(k):
        c = rng.random()
        if c < 0.3:
            mods.append(("dagger",))
        elif c < 0.65:
            if have_arr and rng.random() < 0.35:
                mods.append(("control_arr", 3))
                have_arr = False
            else:
                m = min(len(free_ctrl), rng.choice([1, 1, 2]))
                if m == 0:
                    mods.append(("dagger",))
                    continue
                cs = [free_ctrl.pop(0) for _ in range(m)]
                mods.append(("control", cs))
        else:
            r_ = rng.random()
            if r_ < 0.35:
                mods.append(("power_lit", rng.randint(2, 9)))
            elif r_ < 0.6:
                mods.append(("power_var", "n"))
            elif r_ < 0.8:
                # exponent expressions that the CFG builder rewrites (comptime, conditional, walrus,
                # short-circuit): the modifier must use the rewritten expression
                mods.append(("power_expr", rng.choice(["comptime(3)", "(n if fl > 0.25 else n + n)", "(mw := n)",
                                                       "n * (n if kk > 1 else n + n)", "(n if fl > 0.1 and kk > 2 else n * n)"])))
            else:
                # exponent computed from a captured non-copyable value that the body uses too
                mods.append(("power_expr", "cnt(ar)"))
    parts = []
    for m in mods:
        if m[0] == "dagger":
            parts.append(rng.choice(["dagger", "dagger()"]))
        elif m[0] == "control":
            parts.append(f"control({', '.join(m[1])})")
        elif m[0] == "control_arr":
            parts.append("control(cs)")
        elif m[0] == "power_lit":
            parts.append(f"power({m[1]})")
        elif m[0] == "power_expr":
            parts.append(f"power({m[1]})")
        else:
            parts.append("power(n)")
    gates = []
    body = []
    for _ in range(rng.randint(1, 4)):
        if rng.random() < 0.25:
            g = rng.choice(["cx", "cz"])
            body.append(f"        {g}(q, r)")
        else:
            g = rng.choice(GATES1)
            body.append(f"        {g}({rng.choice(['q', 'r'])})")
        gates.append(g)
    # classical captures: copyable values (int, float) and affine ones (arrays), in any order of
    # first use — the block function's parameter order and the call site must agree
    uses_expr = any(m[0] == "power_expr" for m in mods)
    if rng.random() < 0.6 or uses_expr:
        if uses_expr:
            body.insert(rng.randint(0, len(body)), f"        tab({rng.choice(['q', 'r'])}, ar)")
        extra = [f"        {rng.choice(['rotk(q, kk)', 'rotk(r, kk)', 'rotf(q, fl, kk)', 'rotf(r, fl, 2)', 'tab(q, ar)', 'tab(r, ar)', 'tab2(br, q, kk, ar)', 'tab2(br, r, 1, ar)'])}"
                 for _ in range(rng.randint(1, 3))]
        for e_ in extra:
            body.insert(rng.randint(0, len(body)), e_)
    nested = rng.random() < 0.15 and len(parts) > 1
    if nested:
        # the same modifiers as nested with statements instead of one comma list
        lines = []
        ind = "    "
        for p in parts:
            lines.append(f"{ind}with {p}:")
            ind += "    "
        lines += [ind + b.strip() for b in body]
        with_src = "\n".join(lines)
    else:
        with_src = f"    with {', '.join(parts)}:\n" + "\n".join(body)
    text = (HDR + "@guppy\ndef main(q: qubit, r: qubit, c1: qubit, c2: qubit, c3: qubit, "
            "cs: array[qubit, 3], n: nat) -> None:\n"
            "    kk = 3\n    fl = 0.5\n    ar = array(1, 2)\n    br = array(True, False, True)\n"
            + with_src + "\n")
    return text, mods, gates, nested


def sym(s):
    return s.split("@")[0]


def analyse(pkg):
    """Returns (chains, bodies): per call_indirect the list of modifier ops applied to the loaded
    function (innermost first) with their args and operand producers; per __WithBlock__ function its
    quantum op names in order."""
    import hugr.model as hm

    m = pkg.to_model().modules[0]
    bodies = {}
    chains = []
    symbols = {}

    def title(node):
        for t in node.meta:
            if isinstance(t, hm.Apply) and t.symbol == "core.title":
                return t.args[0].value
        return None

    def walk_region(region, fn_title):
        prod = {}
        nodes = []

        def collect(r):
            for n in r.children:
                nodes.append(n)
                for o in n.outputs:
                    prod[o] = n
                for sub in n.regions:
                    collect(sub)

        collect(region)
        for n in nodes:
            op = n.operation
            if isinstance(op, hm.CustomOp) and isinstance(op.operation, hm.Apply):
                name = sym(op.operation.symbol)
                if name == "core.call_indirect":
                    chain = []
                    cur = prod.get(n.inputs[0])
                    while cur is not None:
                        cop = cur.operation
                        if not (isinstance(cop, hm.CustomOp) and isinstance(cop.operation, hm.Apply)):
                            break
                        cname = sym(cop.operation.symbol)
                        if not cname.startswith("tket.modifier."):
                            chain.append(("source", str(cop.operation), None, None))
                            break
                        arity = None
                        if cname.endswith("ControlModifier"):
                            a0 = cop.operation.args[0]
                            arity = a0.value if isinstance(a0, hm.Literal) else str(a0)
                        operand = None
                        if cname.endswith("PowerModifier"):
                            p = prod.get(cur.inputs[1])
                            if p is None:
                                operand = ("input", cur.inputs[1])
                            else:
                                operand = ("node", str(p.operation.operation)
                                           if isinstance(p.operation, hm.CustomOp) else type(p.operation).__name__)
                        chain.append((cname.split(".")[-1], arity, operand, None))
                        cur = prod.get(cur.inputs[0])
                    chains.append((fn_title, list(reversed(chain)), len(n.inputs) - 1))

    for node in m.root.children:
        if isinstance(node.operation, hm.DefineFunc):
            t = title(node) or node.operation.symbol.name
            if t.startswith("__WithBlock__"):
                symbols[t] = node.operation.symbol.name
                ops = []

                def q(r):
                    for n in r.children:
                        op = n.operation
                        if isinstance(op, hm.CustomOp) and isinstance(op.operation, hm.Apply):
                            nm = sym(op.operation.symbol)
                            if nm.startswith("tket.quantum."):
                                ops.append(nm.split(".")[-1].lower())
                        for sub in n.regions:
                            q(sub)

                for r in node.regions:
                    q(r)
                bodies[t] = ops
            for r in node.regions:
                walk_region(r, t)
    return chains, bodies, symbols


def judge_text(ctx, text, mods, gates, nested):
    from vf import ctx as C

    try:
        ld = ctx.load(text)
        pkg = ld.main.compile_function()
    except BaseException as e:
        if C.raised_in_harness(e):
            raise
        if C.is_guppy_error(e):
            try:
                msg = ctx.render(e)[:500]
            except Exception:
                msg = repr(e)
            return {"status": "discard", "fp": None, "detail": "guppy rejected: " + msg,
                    "counters": {"guppy_rejected": 1}}
        return {"status": "violated", "fp": "crash", "mech": "C25:compiler-crash:" + C.innermost_repo_frame(e),
                "witness": {"text": text, "error": C.short_tb(e)}}
    viols = []
    counters = {"stacks_compiled": 1, "modifier_ops_checked": 0}
    e1, e2 = ctx.validate_both(pkg)
    n_ctrl = sum(1 for m in mods if m[0].startswith("control"))
    if e1 or e2:
        sizes = {len(m[1]) if m[0] == "control" else m[1] for m in mods if m[0].startswith("control")}
        mech = "C25:controls-passed-in-wrong-order-invalid-hugr" if n_ctrl >= 2 and len(sizes) > 1 and not nested \
            else "C25:invalid-hugr"
        viols.append({"mech": mech, "witness": {"text": text, "V1": (e1 or "")[:400], "V2": (e2 or "")[:400]}})
    chains, bodies, symbols = analyse(pkg)
    if not nested:
        # one block -> one chain in main, one body function
        main_chains = [c for c in chains if c[0] == "main"]
        if len(main_chains) != 1 or len(bodies) != 1:
            viols.append({"mech": "C25:unexpected-block-structure",
                          "witness": {"text": text, "chains": repr(chains), "bodies": repr(bodies)}})
        else:
            chain = main_chains[0][1]
            emitted = [c for c in chain if c[0] != "source"]
            counters["modifier_ops_checked"] += len(emitted)
            body = next(iter(bodies.values()))
            want_body = [g for g in gates]
            if body != want_body:
                viols.append({"mech": "C25:body-function-differs-from-block",
                              "witness": {"text": text, "body_ops": body, "expected": want_body}})
            body_sym = next(iter(symbols.values()))
            if not chain or chain[0][0] != "source" or not re.search(
                    rf"core\.load_const.*\b{re.escape(body_sym)}\b", chain[0][1], re.S):
                viols.append({"mech": "C25:chain-does-not-start-at-loaded-block-function",
                              "witness": {"text": text, "chain": repr(chain)}})
            src = []
            for mm in mods:
                if mm[0] == "dagger":
                    src.append(("DaggerModifier", None))
                elif mm[0] == "control":
                    src.append(("ControlModifier", len(mm[1])))
                elif mm[0] == "control_arr":
                    src.append(("ControlModifier", mm[1]))
                elif mm[0] == "power_lit":
                    src.append(("PowerModifier", ("lit", mm[1])))
                elif mm[0] == "power_expr" and mm[1] == "comptime(3)":
                    src.append(("PowerModifier", ("lit", 3)))
                else:
                    src.append(("PowerModifier", ("var", mm[1])))
            got = [(c[0], c[1] if c[0] == "ControlModifier" else None) for c in emitted]
            want_exact = [(n_, a if n_ == "ControlModifier" else None) for n_, a in src]
            if got != want_exact:
                # classify the deviation
                ndag = sum(1 for n_, _ in src if n_ == "DaggerModifier")
                canon = ([("DaggerModifier", None)] if ndag % 2 else []) + \
                    [x for x in want_exact if x[0] == "PowerModifier"] + \
                    [x for x in want_exact if x[0] == "ControlModifier"]
                no_dag_src = [x for x in want_exact if x[0] != "DaggerModifier"]
                no_dag_got = [x for x in got if x[0] != "DaggerModifier"]
                if got == canon:
                    if ndag >= 2:
                        viols.append({"mech": "C25:dagger-parity-collapse",
                                      "witness": {"text": text, "source_order": want_exact, "emitted": got}})
                    if no_dag_src != no_dag_got or (ndag == 1 and want_exact != got):
                        viols.append({"mech": "C25:fixed-emission-order",
                                      "witness": {"text": text, "source_order": want_exact, "emitted": got}})
                else:
                    viols.append({"mech": "C25:modifier-ops-differ",
                                  "witness": {"text": text, "source_order": want_exact, "emitted": got}})
            # exponent wiring: powers are emitted in source order among themselves
            pw_src = [a for n_, a in src if n_ == "PowerModifier"]
            pw_got = [c[2] for c in emitted if c[0] == "PowerModifier"]
            for (kind, val), operand in zip(pw_src, pw_got):
                ok = False
                if operand is not None:
                    if kind == "lit":
                        ok = operand[0] == "node" and re.search(rf"arithmetic\.int\.const 6 {val}\b", operand[1]) is not None
                    else:
                        # a nat parameter reaches the op possibly through a conversion; it must not be a constant
                        ok = operand[0] == "input" or "load_const" not in operand[1]
                if not ok:
                    viols.append({"mech": "C25:power-exponent-wired-from-wrong-value",
                                  "witness": {"text": text, "expected": [kind, val], "operand": repr(operand)}})
    else:
        counters["nested_stacks"] = 1
        if len(bodies) != len(mods):
            viols.append({"mech": "C25:nested-blocks-count",
                          "witness": {"text": text, "bodies": repr(bodies), "mods": repr(mods)}})
    seen = set()
    uniq = [v for v in viols if not (v["mech"] in seen or seen.add(v["mech"]))]
    rec = {"status": "violated" if uniq else "held", "counters": counters}
    if uniq:
        rec["violations"] = uniq
    return rec


def run_case(ctx, rng, idx, params, tier):
    text, mods, gates, nested = build(rng)
    rec = judge_text(ctx, text, mods, gates, nested)
    if rec["status"] != "discard":
        seq = [m[0] + (str(len(m[1])) if m[0] == "control" else "") for m in mods]
        rec["fp"] = hashlib.sha1(repr((seq, nested)).encode()).hexdigest()[:16]
        rec["sets"] = {"modifier_sequences": ["+".join(seq)]}
        if idx < 3:
            rec["sample"] = {"program": text.split("def main")[1]}
    return rec


def replay(ctx, w):
    return {"status": "held", "note": "structural witness: re-run the check; program:\n" + w.get("text", "")}
