"""C01 — Accepted programs lower to valid HUGR.

Every generated program that /repo's checker accepts is compiled and the package is validated
twice: V1 = hugr-py's bundled Rust validator on the raw output (0.12-era extension definitions
reconstructed by the adapter), V2 = hugr-cli + selene's check_hugr on the bool-lowered output with
pristine installed definitions."""
from __future__ import annotations

import re

from vf.gen import ggeneric, glinear, gprog

LEVEL = "exploration"
LEVEL_TEXT = ("Random program generation (classical G-prog profile, linear/qubit profile, generic and "
              "comptime profile) -> real check() -> real compile() -> two independent invocations of "
              "the Rust HUGR validator. Held on N accepted programs; validator is the oracle for "
              "port types, linearity and region structure.")
LEVEL_NOTE = ("Trusted: the HUGR validators shipped with hugr-py 0.18.6 and selene-hugr-qis-compiler "
              "0.4.3, the adapter's reconstructed tket.bool / tket.quantum(0.12) definitions (V1) and "
              "the bool lowering (V2).")
TECHNIQUE = "generated programs through the real compiler, output judged by the real HUGR validator (two registries)"
RULE = ("profiles: G-prog classical (see C03), G-linear (qubits/arrays of qubits/structs with qubit "
        "fields through branches and loops, owned+borrowed params), G-generic (functions over type "
        "variables of all four copy/drop bounds, plain / in generic structs / in tuples, nat-sized "
        "arrays, comptime parameters; values kept alive, copied, moved, swapped, repacked, rebound "
        "and dropped across branches and loops whose successors need different live sets; compiled "
        "polymorphically and through concrete instantiating callers). Only programs accepted by check() count. distinct = distinct statement-kind "
        "sequences; non-trivial = has a branch or loop")
FLOORS = {"validated_functions": 20}


def plan(tier, seed):
    n = 480 if tier == "quick" else 8000
    return {"n_cases": n, "floors": {"evaluations": n // 3}}


def norm_err(s: str) -> str:
    lines = [l.strip() for l in s.splitlines() if l.strip()]
    key = ""
    for l in lines:
        m = re.match(r"\d+: (.*)", l)
        if m:
            key = m.group(1)
    key = key or (lines[0] if lines else "?")
    key = re.sub(r"Node\(\d+\)", "Node(N)", key)
    key = re.sub(r"Port\((\w+), \d+\)", r"Port(\1, K)", key)
    key = re.sub(r"\d+", "N", key)
    return key[:90]


def judge_text(ctx, text, fp, entry_names=None):
    from vf import ctx as C

    counters = {}
    try:
        ld = ctx.load(text)
    except BaseException as e:
        if C.is_guppy_error(e):
            return {"status": "discard", "fp": None, "detail": "rejected at definition",
                    "counters": {"rejected": 1}}
        raise
    from guppylang.defs import GuppyFunctionDefinition

    defs = [(n, v) for n, v in vars(ld.module).items()
            if isinstance(v, GuppyFunctionDefinition) and (entry_names is None or n in entry_names)]
    viols = []
    for name, d in defs:
        try:
            d.check()
        except BaseException as e:
            if C.is_guppy_error(e):
                counters["rejected"] = counters.get("rejected", 0) + 1
                continue
            # crash during check: C02's territory; here the program was not "accepted"
            counters["check_crashed"] = counters.get("check_crashed", 0) + 1
            continue
        try:
            pkg = d.compile_function()
        except BaseException as e:
            if C.raised_in_harness(e):
                raise
            kind = "guppy-error-after-check" if C.is_guppy_error(e) else "crash"
            key = type(e).__name__ if C.is_guppy_error(e) else C.innermost_repo_frame(e)
            if C.is_guppy_error(e):
                try:
                    key = getattr(e.error, "title", key)
                except Exception:
                    pass
            viols.append({"mech": f"C01:compile-{kind}:{key}",
                          "witness": {"text": text, "function": name, "error": C.short_tb(e, 4)}})
            continue
        e1, e2 = ctx.validate_both(pkg)
        counters["validated_functions"] = counters.get("validated_functions", 0) + 1
        if e1:
            viols.append({"mech": f"C01:invalid-hugr:V1:{norm_err(e1)}",
                          "witness": {"text": text, "function": name, "validator": "V1 raw", "error": e1[:1500]}})
        if e2:
            viols.append({"mech": f"C01:invalid-hugr:V2:{norm_err(e2)}",
                          "witness": {"text": text, "function": name, "validator": "V2 lowered", "error": e2[:1500]}})
    if not counters.get("validated_functions") and not viols:
        return {"status": "discard", "fp": None, "detail": "nothing accepted", "counters": counters}
    rec = {"status": "violated" if viols else "held", "fp": fp, "counters": counters}
    if viols:
        rec["violations"] = viols[:4]
    return rec


def run_case(ctx, rng, idx, params, tier):
    k = idx % 3
    if k == 0:
        prog = gprog.generate(rng)
        text, fp, prof = prog.text(), (prog.fingerprint() if prog.nontrivial() else None), "classical"
        names = [f.name for f in prog.g.funcs] + ["main"]
    elif k == 1:
        text, fp, _fn = glinear.generate(rng, accept_only=True)
        prof = "linear"
        names = ["main"]
    else:
        text, fp, names = ggeneric.generate(rng)
        prof = "generic"
    rec = judge_text(ctx, text, fp, names)
    rec.setdefault("counters", {})[f"profile_{prof}"] = 1
    if idx < 3 and rec["status"] in ("held", "violated"):
        rec["sample"] = {"profile": prof, "program": text}
    return rec


def replay(ctx, w):
    return judge_text(ctx, w["text"], "replay", [w["function"]] if w.get("function") else None)
