"""C05 — Side effects happen once each, in Python's evaluation order.

Expression shapes with a result-reporting function in every operand slot are executed on the real
emulator and under CPython (same source); the ordered event streams must be equal, statement by
statement.  Panics: stream prefix equal, message equal, nothing afterwards."""
from __future__ import annotations

import ast
import hashlib

from vf.gen import opy

LEVEL = "exploration"
LEVEL_TEXT = ("Differential execution of generated expression shapes (reporter call in every operand "
              "slot) on the real emulator vs CPython; the oracle is the ordered event stream per "
              "statement. Held on N statements over M distinct operator/shape combinations.")
LEVEL_NOTE = ("Trusted: CPython evaluation order as reference; O-py domain guard; adapter + lowering; "
              "installed selene. Known deviations are keyed by mechanism (see known_findings.json): "
              "statements where a hoisted sub-expression (walrus, conditional expression, and/or used "
              "as a value, chained comparison) follows an effectful operand, and `xs[i()] op= v`.")
TECHNIQUE = "differential event-stream monitor (reporter calls in operand slots) against CPython"
RULE = ("6-9 statements per program: result(tag, expr) / subscript assignment / augmented subscript "
        "assignment / call with reporter arguments; expr depth <=4 over binary, unary, compare, "
        "chained compare, and/or/not, conditional expression, walrus, tuple/array construction and "
        "indexing, nested calls, int/float mixing; optional panic in a checked argument slot. "
        "distinct = distinct statement shapes (AST with literals erased)")
FLOORS = {"statements_compared": 100, "reporter_events": 300}

HEADER = '''from collections.abc import Callable
from guppylang import guppy
from guppylang.std.builtins import result, array, owned, panic

@guppy.struct
class PT:
    a: int
    b: int

@guppy
def t(k: int, v: int) -> int:
    result("e", k)
    return v

@guppy
def tf(k: int, v: float) -> float:
    result("e", k)
    return v

@guppy
def tb(k: int, v: bool) -> bool:
    result("e", k)
    return v

@guppy
def g2(a: int, b: int) -> int:
    result("g", a * 100 + b)
    return a - b

@guppy
def h2(a: int, b: int) -> int:
    result("h", a * 100 + b)
    return a + b

@guppy
def pick(k: int, v: int) -> Callable[[int, int], int]:
    result("e", k)
    if v > 0:
        return g2
    return h2

@guppy
def bumpa(a: array[int, 2], v: int) -> None:
    result("b", v)
    a[0] = a[0] + v

@guppy
def g3(a: int, b: float, c: bool) -> int:
    result("g", a)
    return a + 1 if c else a - 1

'''


def plan(tier, seed):
    n = 260 if tier == "quick" else 7000
    return {"n_cases": n, "floors": {"evaluations": n // 3}}


class G:
    def __init__(self, rng):
        self.r = rng
        self.k = 0
        self.panic_at = None

    def rep(self, ty):
        self.k += 1
        r = self.r
        if ty == "int":
            return f"t({self.k}, {r.randint(-5, 9)})"
        if ty == "float":
            return f"tf({self.k}, {r.randint(-8, 8) / 2!r})"
        return f"tb({self.k}, {r.choice(['True', 'False'])})"

    def idx(self, n):
        self.k += 1
        return f"t({self.k}, {self.r.randrange(n)})"

    def expr(self, ty, d):
        r = self.r
        if d <= 0 or r.random() < 0.15:
            if r.random() < 0.15:
                return {"int": str(r.randint(0, 9)), "float": "0.5", "bool": "True"}[ty]
            return self.rep(ty)
        c = r.randrange(12)
        if ty == "int" and r.random() < 0.12:
            # calls through a function *value* whose callee expression reports too, and struct
            # construction followed by a projection
            if r.random() < 0.6:
                self.k += 1
                return (f"pick({self.k}, {r.randint(0, 1)})({self.expr('int', d - 1)}, "
                        f"{self.expr('int', d - 1)})")
            return f"PT({self.expr('int', d - 1)}, {self.expr('int', d - 1)}).{r.choice('ab')}"
        if ty == "int":
            if c < 3:
                op = r.choice(["+", "-", "*", "&", "|", "^"])
                return f"({self.expr('int', d - 1)} {op} {self.expr('int', d - 1)})"
            if c == 3:
                return f"(-{self.expr('int', d - 1)})"
            if c == 4:
                return f"({self.expr('int', d - 1)} if {self.expr('bool', d - 1)} else {self.expr('int', d - 1)})"
            if c == 5:
                return f"g2({self.expr('int', d - 1)}, {self.expr('int', d - 1)})"
            if c == 6:
                return f"g3({self.expr('int', d - 1)}, {self.expr('float', d - 1)}, {self.expr('bool', d - 1)})"
            if c == 7:
                n = r.randint(2, 3)
                els = ", ".join(self.expr("int", d - 1) for _ in range(n))
                return f"({els})[{r.randrange(n)}]"
            if c == 8:
                n = r.randint(2, 3)
                if r.random() < 0.7:
                    els = ", ".join(str(r.randint(0, 9)) for _ in range(n))
                else:
                    els = ", ".join(self.expr("int", d - 1) for _ in range(n))
                return f"array({els})[{self.idx(n)}]"
            if c == 9:
                return f"int({self.expr('bool', d - 1)})"
            if c == 10:
                self.k += 1
                return f"(w{self.k} := {self.expr('int', d - 1)})"
            return f"({self.expr('int', d - 1)} // {r.randint(1, 5)})"
        if ty == "float":
            if c < 3:
                op = r.choice(["+", "-", "*"])
                a, b = r.choice([("float", "float"), ("int", "float"), ("float", "int")])
                return f"({self.expr(a, d - 1)} {op} {self.expr(b, d - 1)})"
            if c == 3:
                return f"(-{self.expr('float', d - 1)})"
            if c == 4:
                return f"({self.expr('float', d - 1)} if {self.expr('bool', d - 1)} else {self.expr('float', d - 1)})"
            if c == 5:
                return f"float({self.expr('int', d - 1)})"
            return self.rep("float")
        # bool
        if c < 3:
            a = r.choice(["int", "int", "float"])
            op = r.choice(["<", "<=", ">", ">=", "==", "!="])
            b = a if r.random() < 0.7 else ("float" if a == "int" else "int")
            return f"({self.expr(a, d - 1)} {op} {self.expr(b, d - 1)})"
        if c == 3:
            o1, o2 = r.choice(["<", "<="]), r.choice(["<", "<=", "!=", ">"])
            return f"({self.expr('int', d - 1)} {o1} {self.expr('int', d - 1)} {o2} {self.expr('int', d - 1)})"
        if c in (4, 5):
            op = "and" if c == 4 else "or"
            n = r.randint(2, 3)
            return "(" + f" {op} ".join(self.expr("bool", d - 1) for _ in range(n)) + ")"
        if c == 6:
            return f"(not {self.expr('bool', d - 1)})"
        if c == 7:
            return f"({self.expr('bool', d - 1)} if {self.expr('bool', d - 1)} else {self.expr('bool', d - 1)})"
        if c == 8:
            op = r.choice(["&", "|", "^"])
            return f"({self.expr('bool', d - 1)} {op} {self.expr('bool', d - 1)})"
        return self.rep("bool")

    def statement(self, n):
        r = self.r
        c = r.randrange(10)
        d = r.randint(1, 3)
        if c < 5:
            ty = r.choice(["int", "int", "float", "bool"])
            return f'result("v{n}", {self.expr(ty, d)})'
        if c == 5:
            return f"xs[{self.idx(3)}] = {self.expr('int', d)}"
        if c == 6:
            op = r.choice(["+", "-", "*"])
            if r.random() < 0.7:  # index without side effect (the effectful form is a known finding)
                return f"xs[{r.randrange(3)}] {op}= {self.expr('int', d - 1)}"
            return f"xs[{self.idx(3)}] {op}= {self.expr('int', d - 1)}"
        if c == 7 and r.random() < 0.5:
            # nested places: the row index is evaluated once although the row is taken out and put
            # back (element assignment into a row, lending a row to a mutating callee)
            f = r.random()
            if f < 0.2:
                return f"mm[{self.idx(2)}][{r.randrange(2)}] = {self.expr('int', d - 1)}"
            if f < 0.4:
                return f"bumpa(mm[{self.idx(2)}], {self.expr('int', d - 1)})"
            if f < 0.6:
                # two subscript levels above the lent / assigned place
                return f"bumpa(m3[{self.idx(2)}][{r.randrange(2)}], {self.expr('int', d - 1)})"
            if f < 0.7:
                return f"bumpa(m3[{r.randrange(2)}][{self.idx(2)}], {self.expr('int', d - 1)})"
            if f < 0.8:
                return f"m3[{self.idx(2)}][{r.randrange(2)}][{r.randrange(2)}] = {self.expr('int', d - 1)}"
            return f'result("v{n}", mm[{self.idx(2)}][{self.idx(2)}])'
        if c == 7:
            return f'result("v{n}", xs[{self.expr("int", 1)} % 3])'
        if c == 8:
            f = r.random()
            if f < 0.4:
                return f"y{n} = g2({self.expr('int', d)}, {self.expr('int', d)})"
            if f < 0.6:
                return f"acc {r.choice(['+', '-', '*'])}= {self.expr('int', d)}"
            if f < 0.8:
                return f"acc, y{n} = {self.expr('int', d - 1)}, {self.expr('int', d - 1)}"
            self.k += 1
            return (f"fn{n} = pick({self.k}, {r.randint(0, 1)})\n"
                    f"    acc = fn{n}({self.expr('int', d - 1)}, {self.expr('int', d - 1)})")
        return f'result("v{n}", g3({self.expr("int", d - 1)}, {self.expr("float", d - 1)}, {self.expr("bool", d - 1)}))'


HOISTED = (ast.IfExp, ast.BoolOp, ast.NamedExpr)


def _norm(src: str) -> str:
    return "\n".join(l.strip() for l in src.split("\n") if l.strip())


def stmt_features(src: str) -> set[str]:
    """Features of one generated statement (possibly two source lines) relevant to known deviations."""
    feats: set[str] = set()
    for node in ast.parse(_norm(src)).body:
        feats |= _features_one(node)
    return feats


def _features_one(node) -> set[str]:
    feats: set[str] = set()
    if isinstance(node, ast.AugAssign) and isinstance(node.target, ast.Subscript):
        feats.add("augassign-subscript")
    # evaluation-order walk: is there a reporter call evaluated before a hoisted node begins?
    order: list[tuple[str, ast.AST]] = []

    def is_hoisted(n):
        return isinstance(n, HOISTED) or (isinstance(n, ast.Compare) and len(n.ops) > 1) or \
            (isinstance(n, ast.UnaryOp) and isinstance(n.op, ast.Not))

    def walk(n):
        if is_hoisted(n):
            order.append(("hoist", n))
        if isinstance(n, ast.Call) and isinstance(n.func, ast.Name) and n.func.id in ("t", "tf", "tb"):
            order.append(("effect", n))
            return
        if isinstance(n, ast.Call) and isinstance(n.func, ast.Name) and n.func.id in ("g2", "g3", "h2"):
            for a in n.args:
                walk(a)
            order.append(("effect", n))
            return
        if isinstance(n, ast.Call) and isinstance(n.func, ast.Name) and n.func.id == "pick":
            order.append(("effect", n))
            return
        if isinstance(n, ast.Call) and isinstance(n.func, ast.Call):
            walk(n.func)
            for a in n.args:
                walk(a)
            order.append(("effect", n))
            return
        for ch in ast.iter_child_nodes(n):
            walk(ch)

    if isinstance(node, ast.Assign) and isinstance(node.targets[0], ast.Subscript):
        walk(node.value)
        walk(node.targets[0])
    elif isinstance(node, ast.AugAssign):
        walk(node.target)
        walk(node.value)
    else:
        walk(node)
    # int <cmp> float: /repo resolves it through the float operand's reflected dunder with the
    # operands swapped, which also swaps their evaluation order
    def ety(n):
        if isinstance(n, ast.Call) and isinstance(n.func, ast.Name):
            return {"t": "int", "tf": "float", "tb": "bool", "g2": "int", "g3": "int", "h2": "int",
                    "int": "int", "float": "float"}.get(n.func.id, "int")
        if isinstance(n, ast.Constant):
            return type(n.value).__name__
        if isinstance(n, ast.BinOp):
            a, b = ety(n.left), ety(n.right)
            return "float" if "float" in (a, b) else a
        if isinstance(n, ast.UnaryOp):
            return "bool" if isinstance(n.op, ast.Not) else ety(n.operand)
        if isinstance(n, ast.IfExp):
            return ety(n.body)
        if isinstance(n, ast.NamedExpr):
            return ety(n.value)
        if isinstance(n, (ast.Compare, ast.BoolOp)):
            return "bool"
        return "int"

    def has_effect(n):
        return any(isinstance(c, ast.Call) and isinstance(c.func, ast.Name)
                   and c.func.id in ("t", "tf", "tb", "g2", "g3", "h2", "pick") for c in ast.walk(n))

    for n in ast.walk(node):
        if isinstance(n, ast.Compare):
            ops = [n.left, *n.comparators]
            for a, b in zip(ops, ops[1:]):
                if ety(a) == "int" and ety(b) == "float" and has_effect(a) and has_effect(b):
                    feats.add("int-float-compare")
    for n in ast.walk(node):
        if isinstance(n, ast.Subscript) and has_effect(n.value) and has_effect(n.slice):
            feats.add("effectful-subscripted-expression")
    seen_effect = False
    for kind, n in order:
        if kind == "effect":
            seen_effect = True
        elif seen_effect:
            feats.add("hoist-after-effect")
    return feats


def shape_of(src: str) -> str:
    node = ast.parse(_norm(src))
    for n in ast.walk(node):
        if isinstance(n, ast.Constant):
            n.value = 0 if not isinstance(n.value, str) else "s"
        if isinstance(n, ast.Name) and (n.id.startswith("w") or n.id.startswith("y")
                                        or n.id.startswith("fn")):
            n.id = "v"
    return hashlib.sha1(ast.dump(node).encode()).hexdigest()[:16]


def split_segments(stream):
    """[(marker n, [events...])] from a stream with ('s', n) markers."""
    segs = []
    cur = None
    for t, v in stream:
        if t == "s":
            cur = (v, [])
            segs.append(cur)
        elif cur is not None:
            cur[1].append((t, v))
    return segs


def judge_text(ctx, text, stmts):
    from vf import ctx as C

    try:
        exp, exp_panic = opy.run_source(text, index_error_is_panic=True)
    except (opy.OutOfDomain, opy.StepLimit) as e:
        return {"status": "discard", "fp": None, "detail": f"oracle: {e}",
                "counters": {"discard_out_of_domain": 1}}
    try:
        ld = ctx.load(text)
        pkg = ld.main.compile()
    except BaseException as e:
        if C.is_guppy_error(e):
            try:
                msg = ctx.render(e)[:500]
            except Exception:
                msg = repr(e)
            return {"status": "discard", "fp": None, "detail": "guppy rejected: " + msg,
                    "counters": {"guppy_rejected": 1}}
        if C.raised_in_harness(e):
            raise
        return {"status": "discard", "fp": None, "detail": "compiler crash " + C.innermost_repo_frame(e),
                "counters": {"compiler_crash": 1}}
    out = ctx.emulate(pkg)
    got = [(t, opy.norm_value(v)) for t, v in out.stream()]
    es, gs = split_segments(exp), split_segments(got)
    counters = {"statements_compared": 0,
                "reporter_events": sum(1 for t, _ in exp if t in ("e", "g", "h", "b"))}
    viols = []
    shapes = []
    for i, st in enumerate(stmts):
        e_seg = es[i][1] if i < len(es) else None
        g_seg = gs[i][1] if i < len(gs) else None
        if e_seg is None and g_seg is None:
            continue  # after the panic in both
        counters["statements_compared"] += 1
        shapes.append(shape_of(st))
        if e_seg == g_seg:
            continue
        feats = stmt_features(st)
        if "effectful-subscripted-expression" in feats:
            mech = "C05:subscript-index-evaluated-before-subscripted-expression"
        elif "int-float-compare" in feats:
            mech = "C05:int-float-comparison-evaluates-right-operand-first"
        elif "hoist-after-effect" in feats:
            mech = "C05:hoisted-subexpression-evaluated-before-left-operands"
        elif "augassign-subscript" in feats and e_seg is not None and g_seg is not None and \
                sorted(set(map(tuple, e_seg))) == sorted(set(map(tuple, g_seg))):
            mech = "C05:augassign-subscript-index-evaluated-twice"
        elif e_seg is None or g_seg is None:
            mech = "C05:statement-missing-or-extra"
        else:
            mech = "C05:event-order-or-count"
        viols.append({"mech": mech, "witness": {"text": text, "statement": st, "expected": e_seg,
                                                 "observed": g_seg, "stmts": stmts}})
        counters["statements_with_deviation"] = counters.get("statements_with_deviation", 0) + 1
        if mech in ("C05:statement-missing-or-extra", "C05:event-order-or-count"):
            break  # unknown mismatch: later statements may be knock-on effects
    if not viols:
        # panic agreement
        if exp_panic is not None:
            counters["panics"] = 1
            if out.panic is None or (exp_panic not in out.panic and not (
                    exp_panic == "index out of bounds" and "out of bounds" in out.panic.lower())):
                viols.append({"mech": "C05:panic-missing-or-message",
                              "witness": {"text": text, "expected_panic": exp_panic,
                                          "observed_panic": out.panic}})
            elif len(gs) != len(es) or (gs and es and gs[-1] != es[-1]):
                viols.append({"mech": "C05:ran-after-panic",
                              "witness": {"text": text, "expected": exp, "observed": got}})
        elif out.panic is not None:
            viols.append({"mech": "C05:unexpected-panic",
                          "witness": {"text": text, "observed_panic": out.panic}})
    rec = {"status": "violated" if viols else "held",
           "fp": hashlib.sha1(" ".join(shapes).encode()).hexdigest()[:16],
           "counters": counters, "sets": {"statement_shapes": shapes}}
    if viols:
        rec["violations"] = viols
    return rec


def build(rng):
    g = G(rng)
    n = rng.randint(6, 9)
    stmts = []
    for i in range(n):
        st = g.statement(i)
        # statements showing one of the known evaluation-order deviations (known_findings.json)
        # would attribute *any* deviation to that finding; keep a quarter of them as probes of the
        # findings and regenerate the rest, so that most statements are judged strictly
        for _ in range(6):
            if not stmt_features(st) or rng.random() < 0.25:
                break
            st = g.statement(i)
        stmts.append(st)
    if rng.random() < 0.25:
        # panic in a checked argument slot of a random statement
        i = rng.randrange(n)
        g.k += 1
        if rng.random() < 0.5:
            stmts[i] = f'result("v{i}", t({g.k}, 1) + t({g.k + 1}, panic("boom{i}")) + t({g.k + 2}, 2))'
        else:
            # a panic raised by a compiler-built check (index out of bounds), not by an explicit call:
            # nothing written after it in the statement, and no later statement, may run
            form = rng.choice([f't({g.k}, 1) + xs[t({g.k + 1}, {rng.randint(3, 9)})] + t({g.k + 2}, 2)',
                               f'g2(t({g.k}, 1), xs[t({g.k + 1}, {rng.randint(3, 9)})]) + t({g.k + 2}, 2)',
                               f'xs[t({g.k}, 0)] + mm[t({g.k + 1}, {rng.randint(2, 5)})][0] + t({g.k + 2}, 2)'])
            stmts[i] = f'result("v{i}", {form})'
        g.k += 2
    lines = ["@guppy", "def main() -> None:", "    xs = array(10, 20, 30)", "    acc = 1",
             "    mm = array(array(1, 2), array(3, 4))",
             "    m3 = array(array(array(1, 2), array(3, 4)), array(array(5, 6), array(7, 8)))"]
    for i, s in enumerate(stmts):
        lines.append(f'    result("s", {i})')
        lines.append("    " + s)
    lines.append(f'    result("s", {n})')
    lines.append('    result("xs", xs)')
    lines.append('    result("acc", acc)')
    lines.append('    result("m0", mm[0])')
    lines.append('    result("m1", mm[1])')
    tail = ""
    for i_ in range(2):
        for j_ in range(2):
            lines.append(f'    result("m3_{i_}{j_}", m3[{i_}][{j_}])')
            tail += f'\n    result("m3_{i_}{j_}", m3[{i_}][{j_}])'
    stmts.append('result("xs", xs)\n    result("acc", acc)\n    result("m0", mm[0])\n    result("m1", mm[1])' + tail)
    return HEADER + "\n".join(lines) + "\n", stmts


def run_case(ctx, rng, idx, params, tier):
    text, stmts = build(rng)
    rec = judge_text(ctx, text, stmts)
    if idx < 3 and rec["status"] in ("held", "violated"):
        rec["sample"] = {"program": text.split("def main")[1]}
    return rec


def replay(ctx, w):
    text = w["text"]
    if w.get("stmts"):
        return judge_text(ctx, text, w["stmts"])
    body = text.split("def main() -> None:\n")[1].split("\n")
    stmts = [l.strip() for l in body if l.strip() and not l.strip().startswith('result("s"')
             and not l.strip().startswith("xs = array(")]
    return judge_text(ctx, text, stmts)
