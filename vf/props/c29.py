"""C29 — Diagnostic rendering is total and faithful.

Synthetic source files and Diagnostic objects (built directly from Error/Note/Help subclasses) are
rendered by the real DiagnosticsRenderer; an independent walker over the rendered buffer checks
line numbers, shown source text (minus one common amount of leading columns per snippet), the exact
position and length of highlight runs, presence and order of every label/message word, and that
wrapping only happens at whitespace."""
from __future__ import annotations

import hashlib
import re
from dataclasses import dataclass
from typing import ClassVar

LEVEL = "exploration"
LEVEL_TEXT = ("Generated diagnostics over synthetic sources rendered by the real renderer and parsed "
              "back by an independent structural walker; small files are covered position-exhaustively "
              "(every single- and multi-line span of files <= 4 lines x 8 columns) in thorough.")
LEVEL_NOTE = ("Trusted: the walker's reading of the statement: shown lines equal the original minus the "
              "same number of leading whitespace columns within a snippet; highlight run = spanned "
              "columns on the first line (to end of line if the span continues) and from line start to "
              "the end column on the last line; words = whitespace-separated tokens.")
TECHNIQUE = "generated diagnostics through the real renderer, output parsed by an independent structural walker (runtime monitor)"
RULE = ("files of 1-40 lines, indentation 0-24, blank lines, long lines; primary span single- or "
        "multi-line at any valid position (start/end inside text, at line ends, zero-length); 0-3 "
        "sub-diagnostics with/without spans; labels and messages of 1-40 words incl. words longer than "
        "the wrap width and embedded newlines; a third of the sources are registered over an earlier "
        "registration of the same file name (the rendering must show the latest text); one gutter column "
        "per rendered diagnostic. distinct = (span shape, indentation class, children "
        "kinds, text classes)")
FLOORS = {"diagnostics_rendered": 500, "snippets_checked": 500, "words_checked": 2000}


def plan(tier, seed):
    n = 480 if tier == "quick" else 6400
    return {"n_cases": n, "floors": {"evaluations": n // 2}}


CLASSES = {}


def worker_init(ctx, job):
    from guppylang_internals.diagnostic import Error, Help, Note

    def mk(base, name, label, message):
        ns = {"__annotations__": {"ttl": str, "lbl": str, "msg": str}}
        ann = ns["__annotations__"]
        if base is Error:
            ns["title"] = "{ttl}"
            ann["title"] = ClassVar[str]
        ns["span_label"] = "{lbl}" if label else None
        ann["span_label"] = ClassVar["str | None"]
        ns["message"] = "{msg}" if message else None
        ann["message"] = ClassVar["str | None"]
        cls = type(name, (base,), ns)
        return dataclass(frozen=True)(cls)

    for base, bn in ((Error, "E"), (Note, "N"), (Help, "H")):
        for label in (True, False):
            for message in (True, False):
                CLASSES[(bn, label, message)] = mk(base, f"{bn}{int(label)}{int(message)}", label, message)


WORDS = ["alpha", "beta", "gamma", "x", "the", "of", "type", "`array[int,", "3]`", "cannot", "be",
         "borrowed", "since", "it", "was", "already", "consumed", "here", "qubit", "->", "(a,", "b)",
         "value", "expected", "got", "f", "undroppable", "leaked", "if", "expression", "is", "True"]


def text(rng, kind):
    n = {"short": rng.randint(1, 4), "medium": rng.randint(5, 14), "long": rng.randint(15, 40)}[kind]
    ws = [rng.choice(WORDS) for _ in range(n)]
    if rng.random() < 0.04:
        ws[rng.randrange(n)] = "L" + "o" * rng.randint(55, 95) + "ng"  # longer than the wrap width
    if rng.random() < 0.04:
        ws[rng.randrange(n)] = "non-droppable"  # hyphenated
    s = " ".join(ws)
    if rng.random() < 0.15 and n > 3:
        k = rng.randrange(1, n - 1)
        s = " ".join(ws[:k]) + "\n" + " ".join(ws[k:])
    return s


def gen_source(rng, small):
    nlines = rng.randint(1, 4) if small else rng.randint(1, 40)
    base_indent = rng.choice([0, 0, 4, 8, 13, 16, 20, 24])
    lines = []
    for _ in range(nlines):
        c = rng.random()
        if c < 0.12:
            lines.append("")
        else:
            ind = base_indent + rng.choice([0, 0, 4, 8])
            body_len = rng.randint(1, 8) if small else rng.choice([3, 10, 25, 60, 110])
            body = "".join(rng.choice("abcdef()=+,. ") for _ in range(body_len)).strip() or "x"
            lines.append(" " * ind + body)
    return lines


def gen_span(rng, file, lines, allow_ws):
    """A span within the registered source. allow_ws: endpoints may lie inside leading whitespace."""
    from guppylang_internals.span import Loc, Span

    n = len(lines)
    if n == 0:
        return None
    for _ in range(50):
        l1 = rng.randint(1, n)
        l2 = l1 if rng.random() < 0.6 else rng.randint(l1, min(n, l1 + rng.choice([1, 2, 5])))

        def col(line, lo=0):
            txt = lines[line - 1]
            ind = len(txt) - len(txt.lstrip())
            lo2 = lo if allow_ws else max(lo, min(ind, len(txt)))
            if lo2 > len(txt):
                return None
            return rng.randint(lo2, len(txt))

        c1 = col(l1)
        if c1 is None:
            continue
        if l1 == l2:
            c2 = col(l2, c1)
            if c2 is None:
                continue
            if c2 == c1 and rng.random() < 0.9:
                continue
        else:
            c2 = col(l2)
            if c2 is None:
                continue
        return Span(Loc(file, l1, c1), Loc(file, l2, c2))
    return None


def build(rng, small, allow_ws):
    from guppylang_internals.span import SourceMap

    file = "src.py"
    lines = gen_source(rng, small)
    sm = SourceMap()
    prev = None
    if rng.random() < 0.35:
        # history: the same file name was registered before with other content (an edited and
        # re-loaded module); diagnostics must show the latest registration
        prev = gen_source(rng, rng.random() < 0.5)
        sm.add_file(file, "\n".join(prev))
        if rng.random() < 0.3:
            sm.add_file("other.py", "\n".join(gen_source(rng, True)))
    sm.add_file(file, "\n".join(lines))
    # the oracle's copy of the text is derived from what was registered last, not read back from
    # the SourceMap (a stale map must not agree with itself)
    stored = "\n".join(lines).splitlines(keepends=False)
    sm._vf_prev = prev
    span = gen_span(rng, file, stored, allow_ws)
    if span is None:
        return None
    lbl = rng.random() < 0.8
    msg = rng.random() < 0.5
    d = CLASSES[("E", lbl, msg)](span, ttl=text(rng, "short").replace("\n", " "),
                                 lbl=text(rng, rng.choice(["short", "medium", "long"])),
                                 msg=text(rng, rng.choice(["medium", "long"])))
    kids = []
    for _ in range(rng.choice([0, 0, 1, 2, 3])):
        bn = rng.choice(["N", "H"])
        if rng.random() < 0.6:
            sp = gen_span(rng, file, stored, allow_ws)
            if sp is None:
                continue
            kl = rng.random() < 0.8
            km = rng.random() < 0.4  # a sub-diagnostic may carry a span (+label) *and* a message
            k = CLASSES[(bn, kl, km)](sp, ttl="", lbl=text(rng, rng.choice(["short", "medium"])),
                                      msg=text(rng, rng.choice(["short", "medium"])) if km else "")
        else:
            k = CLASSES[(bn, False, True)](None, ttl="", lbl="", msg=text(rng, rng.choice(["medium", "long"])))
        d.add_sub_diagnostic(k)
        kids.append(k)
    return sm, stored, d


class Walker:
    def __init__(self, buf, stored):
        self.buf = buf
        self.pos = 0
        self.stored = stored
        self.problems = []
        self.snippets = 0
        self.words = 0
        self.bars = {}  # column of the gutter bar -> first line showing it

    def fail(self, what, detail=""):
        self.problems.append((what, detail))

    def next(self):
        if self.pos >= len(self.buf):
            return None
        l = self.buf[self.pos]
        self.pos += 1
        return l

    def gutter(self, line):
        m = re.match(r"^( *)(\d*) \| ?(.*)$", line if line is not None else "\0")
        if not m:
            return None
        self.bars.setdefault(len(m.group(1)) + len(m.group(2)) + 1, line)
        return m.group(2), line[len(m.group(1)) + len(m.group(2)) + 3:]

    def snippet(self, span, label, primary, prefix_lines):
        self.snippets += 1
        hc = "^" if primary else "-"
        g = self.gutter(self.next())
        if g is None or g[0] != "" or g[1].strip() != "":
            return self.fail("snippet-padding-line-missing")
        prefix = min(prefix_lines, span.start.line - 1)
        first_shown = span.start.line - prefix
        shown = []
        # numbered lines: prefix + first (+ last)
        wanted = list(range(first_shown, span.start.line + 1))
        removed = None

        def numbered(no):
            nonlocal removed
            g = self.gutter(self.next())
            if g is None:
                return self.fail("numbered-line-missing", str(no))
            if g[0] != str(no):
                return self.fail("wrong-line-number", f"shown {g[0]!r}, true {no}")
            orig = self.stored[no - 1]
            txt = g[1]
            if removed is None:
                if not orig.endswith(txt) or orig[: len(orig) - len(txt)].strip() != "":
                    return self.fail("source-line-not-faithful", f"{txt!r} vs {orig!r}")
                removed = len(orig) - len(txt)
            else:
                # blank or short lines may be shorter than the removed prefix
                exp = orig[removed:]
                if txt != exp:
                    return self.fail("inconsistent-indentation-trim", f"{txt!r} vs {exp!r} (removed {removed})")
            return txt

        for no in wanted:
            t = numbered(no)
            if t is None:
                return
            shown.append(t)
        multiline = span.start.line != span.end.line
        if multiline:
            first_txt = shown[-1]
            g = self.gutter(self.next())
            if g is None or g[0] != "":
                return self.fail("first-line-highlight-missing")
            exp_start = span.start.column - removed
            exp_len = len(first_txt) - exp_start
            self.check_highlight(g[1], exp_start, exp_len, hc, None, "first")
            if span.end.line - span.start.line > 1:
                g = self.gutter(self.next())
                if g is None or g[1].strip() != "...":
                    return self.fail("ellipsis-line-missing")
            t = numbered(span.end.line)
            if t is None:
                return
            exp_start, exp_len = 0, span.end.column - removed
        else:
            exp_start, exp_len = span.start.column - removed, span.end.column - span.start.column
        g = self.gutter(self.next())
        if g is None or g[0] != "":
            return self.fail("highlight-line-missing")
        rest = self.check_highlight(g[1], exp_start, exp_len, hc, label, "last")
        if label:
            toks = rest.split() if rest is not None else []
            # continuation lines
            while self.pos < len(self.buf):
                g2 = self.gutter(self.buf[self.pos])
                if g2 is None or g2[0] != "" or g2[1].strip() == "":
                    break
                self.pos += 1
                toks += g2[1].split()
            exp = label.split()
            self.words += len(exp)
            if toks != exp:
                self.fail("label-words-differ", f"rendered {toks} vs {exp}")

    def check_highlight(self, txt, start, length, hc, label, which):
        if start < 0 or length < 0:
            self.fail("negative-highlight-geometry", f"{which} start {start} len {length}")
            return None
        lead = txt[:start]
        run = txt[start:start + length]
        after = txt[start + length:]
        if lead.strip() != "" or len(lead) != start:
            self.fail("highlight-start-misplaced", f"{which}: {txt!r} start {start}")
            return None
        if run != hc * length:
            self.fail("highlight-length-wrong", f"{which}: {txt!r} expected {length} x {hc!r} at {start}")
            return None
        if after[:1] == hc:
            self.fail("highlight-too-long", f"{which}: {txt!r}")
            return None
        return after

    def paragraph(self, text_, prefix=""):
        """A blank line followed by the wrapped text (optionally prefixed by 'Level: ')."""
        l = self.next()
        if l is None or l.strip() != "":
            return self.fail("blank-line-before-message-missing", repr(l))
        exp = (prefix + text_).split()
        self.words += len(exp)
        toks = []
        while self.pos < len(self.buf) and len(toks) < len(exp):
            l = self.buf[self.pos]
            if l.strip() == "" and toks and "\n" not in text_:
                break
            self.pos += 1
            toks += l.split()
        if toks != exp:
            self.fail("message-words-differ", f"rendered {toks} vs {exp}")


def check_render(buf, stored, d):
    from guppylang_internals.span import to_span

    w = Walker(buf, stored)
    head = w.next()
    span = to_span(d.span)
    level = d.level.name.lower().capitalize()
    exp_head = f"{level}: {d.rendered_title} (at {span.start})"
    if head != exp_head:
        w.fail("header-line-differs", f"{head!r} vs {exp_head!r}")
    w.snippet(span, d.rendered_span_label, True, 2)
    if not w.problems:
        for k in d.children:
            if k.span is not None:
                w.snippet(to_span(k.span), k.rendered_span_label, False, 0)
                if w.problems:
                    break
    if not w.problems and d.rendered_message:
        w.paragraph(d.rendered_message)
    if not w.problems:
        for k in d.children:
            if k.rendered_message:
                w.paragraph(k.rendered_message, k.level.name.lower().capitalize() + ": ")
                if w.problems:
                    break
    if not w.problems and w.pos != len(buf):
        w.fail("trailing-output", repr(buf[w.pos:w.pos + 3]))
    if not w.problems and len(w.bars) > 1:
        # numbered lines and the highlight lines below them must share one gutter, otherwise the
        # markers do not sit under the spanned columns in the output the user reads
        w.fail("gutter-bar-misaligned", repr(sorted(w.bars.items())[:3]))
    return w


PREV = {}  # id(diagnostic) -> earlier content registered under the same file name (for witnesses)


def describe(stored, d):
    from guppylang_internals.span import to_span

    def sp(s):
        s = to_span(s)
        return [s.start.line, s.start.column, s.end.line, s.end.column]

    return {"source": stored, "previous_registration": PREV.get(id(d)), "span": sp(d.span), "title": d.rendered_title,
            "label": d.rendered_span_label, "message": d.rendered_message,
            "children": [{"level": k.level.name, "span": sp(k.span) if k.span is not None else None,
                          "label": k.rendered_span_label, "message": k.rendered_message}
                         for k in d.children]}


def broken_inside_word(detail):
    """The rendered tokens are the expected tokens with some words split in two (textwrap broke a
    long word, or at a hyphen): joining adjacent rendered tokens reproduces the expected word."""
    import ast as _ast

    try:
        r, e = detail.split(" vs ")
        r, e = _ast.literal_eval(r.replace("rendered ", "")), _ast.literal_eval(e)
    except Exception:
        return False
    i = j = 0
    split_seen = False
    while i < len(r) and j < len(e):
        if r[i] == e[j]:
            i += 1
            j += 1
            continue
        acc = r[i]
        k = i + 1
        while k < len(r) and len(acc) < len(e[j]) and e[j].startswith(acc):
            acc += r[k]
            k += 1
        if acc == e[j]:
            split_seen = True
            i, j = k, j + 1
            continue
        if e[j].startswith(acc) and k >= len(r):
            return True  # truncated comparison window; prefix consistent
        return False
    return split_seen


def judge(stored, sm, d):
    from guppylang_internals.diagnostic import DiagnosticsRenderer
    from guppylang_internals.span import to_span

    from vf import ctx as C

    r = DiagnosticsRenderer(sm)
    try:
        r.render_diagnostic(d)
    except BaseException as e:
        if C.raised_in_harness(e):
            raise
        spans = [to_span(d.span)] + [to_span(k.span) for k in d.children if k.span is not None]
        in_ws = any(loc.column < len(stored[loc.line - 1]) - len(stored[loc.line - 1].lstrip())
                    for s in spans for loc in (s.start, s.end))
        frame = C.innermost_repo_frame(e)
        if in_ws and frame == "AssertionError@Loc.shift_left":
            mech = "C29:span-endpoint-inside-trimmed-indentation-asserts"
        else:
            mech = "C29:render-raised:" + frame
        return [{"mech": mech, "witness": {**describe(stored, d), "error": C.short_tb(e, 3)}}], None
    w = check_render(r.buffer, stored, d)
    if not w.problems:
        return [], w
    what, detail = w.problems[0]
    labels = [d.rendered_span_label] + [k.rendered_span_label for k in d.children]
    msgs = [d.rendered_message] + [k.rendered_message for k in d.children]
    if what in ("label-words-differ", "message-words-differ") and broken_inside_word(detail):
        mech = "C29:line-broken-inside-a-word"
    else:
        mech = f"C29:{what}"
    return [{"mech": mech, "witness": {**describe(stored, d), "problem": detail,
                                        "rendered": r.buffer[:40]}}], w


def fingerprint(stored, d):
    from guppylang_internals.span import to_span

    s = to_span(d.span)
    ind = min((len(l) - len(l.lstrip()) for l in stored[s.start.line - 1: s.end.line] if l.strip()), default=0)
    kinds = tuple(("s" if k.span is not None else "m") + ("l" if k.rendered_span_label else "")
                  + ("M" if k.span is not None and k.rendered_message else "") for k in d.children)
    shape = ("multi" if s.start.line != s.end.line else "single", min(s.end.line - s.start.line, 3),
             "trim" if ind > 12 else "keep", kinds, bool(d.rendered_span_label), bool(d.rendered_message),
             len((d.rendered_span_label or "").split()) // 8)
    return hashlib.sha1(repr(shape).encode()).hexdigest()[:12]


def run_case(ctx, rng, idx, params, tier):
    viols = []
    counters = {"diagnostics_rendered": 0, "snippets_checked": 0, "words_checked": 0}
    fps = set()
    sample = None
    for k in range(60):
        b = build(rng, small=(k % 3 == 0), allow_ws=(k % 10 == 9))
        if b is None:
            continue
        sm, stored, d = b
        PREV.clear()
        PREV[id(d)] = sm._vf_prev
        vs, w = judge(stored, sm, d)
        counters["diagnostics_rendered"] += 1
        if w is not None:
            counters["snippets_checked"] += w.snippets
            counters["words_checked"] += w.words
        fps.add(fingerprint(stored, d))
        viols += vs
        if sample is None and idx < 2:
            from guppylang_internals.diagnostic import DiagnosticsRenderer

            sample = describe(stored, d)
    seen = set()
    uniq = [v for v in viols if not (v["mech"] in seen or seen.add(v["mech"]))]
    rec = {"status": "violated" if uniq else "held", "fp": f"case{idx}", "counters": counters,
           "sets": {"diagnostic_shapes": sorted(fps)}}
    if uniq:
        rec["violations"] = uniq[:10]
    if sample:
        rec["sample"] = sample
    return rec


def replay(ctx, w):
    from guppylang_internals.span import Loc, SourceMap, Span

    sm = SourceMap()
    if w.get("previous_registration") is not None:
        sm.add_file("src.py", "\n".join(w["previous_registration"]))
    sm.add_file("src.py", "\n".join(w["source"]))
    stored = "\n".join(w["source"]).splitlines(keepends=False)

    def sp(x):
        return Span(Loc("src.py", x[0], x[1]), Loc("src.py", x[2], x[3]))

    d = CLASSES[("E", bool(w["label"]), bool(w["message"]))](sp(w["span"]), ttl=w["title"],
                                                             lbl=w["label"] or "", msg=w["message"] or "")
    for k in w["children"]:
        bn = "N" if k["level"] == "NOTE" else "H"
        d.add_sub_diagnostic(CLASSES[(bn, bool(k["label"]), bool(k["message"]))](
            sp(k["span"]) if k["span"] else None, ttl="", lbl=k["label"] or "", msg=k["message"] or ""))
    vs, _ = judge(stored, sm, d)
    return {"status": "violated" if vs else "held", "violations": vs[:2]}
