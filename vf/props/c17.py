"""C17 — Integer literals are range-checked and preserved exactly.

Each literal form is placed in its own probe function; the real checker's accept/reject is compared
with the range rule, and every accepted literal is reported by the real emulator and compared with
the Python integer."""
from __future__ import annotations

LEVEL = "exploration"
LEVEL_TEXT = ("Boundary + random testing of literal forms (literal, negated literal, comptime "
              "expression, tuple/array constants, unannotated) at int and nat against the range rule "
              "(accept iff representable) and exact value preservation on the real emulator.")
LEVEL_NOTE = ("Trusted: Python integers as the reference; adapter + lowering + installed selene (u64 "
              "results >= 2^63 are reported as negative by the installed selene and normalised).")
TECHNIQUE = "boundary-value differential testing of accept/reject and emitted value against the range rule"
RULE = ("values {-2^63-1, -2^63, -1, 0, 1, 2^63-1, 2^63, 2^64-1, 2^64, ...} and random magnitudes up "
        "to 2^70, each in the forms: annotated assignment, return, negated literal, comptime(expr), "
        "tuple element, array element, unannotated literal, call argument; target types int and nat. "
        "distinct = (form, target type, range class of the value)")
FLOORS = {"literals_checked": 200, "literals_emulated": 50}

I63, U64 = 2**63, 2**64
BOUNDARY = [-(2**63) - 1, -(2**63), -(2**63) + 1, -1, 0, 1, 2**31, 2**32, 2**53 + 1, 2**63 - 1, 2**63, 2**63 + 1,
            2**64 - 1, 2**64, 2**64 + 1, -(2**64), 2**70, -(2**70), 12345678901234567890]
FORMS = ["annassign", "return", "comptime", "tuple", "array", "unannotated", "argument", "comptime_tuple",
         "comptime_list", "comptime_list", "array_later"]
HDR = ("from guppylang import guppy\n"
       "from guppylang.std.builtins import result, nat, array, comptime, frozenarray\n"
       "from guppylang.std.platform import _result_nat\n\n"
       "@guppy\ndef id_int(x: int) -> int:\n    return x\n\n"
       "@guppy\ndef id_nat(x: nat) -> nat:\n    return x\n\n")


def plan(tier, seed):
    n = 32 if tier == "quick" else 700
    return {"n_cases": n, "floors": {"evaluations": n // 2}}


def in_range(ty, v):
    return -I63 <= v < I63 if ty == "int" else 0 <= v < U64


def range_class(ty, v):
    if in_range(ty, v):
        if ty == "int" and v in (-I63, I63 - 1) or ty == "nat" and v in (0, U64 - 1):
            return "edge-in"
        return "in"
    lo, hi = (-I63, I63 - 1) if ty == "int" else (0, U64 - 1)
    if v in (lo - 1, hi + 1):
        return "edge-out"
    return "out"


def litsrc(v, rng):
    """Source text of the value: plain / negated literal / hex."""
    if v < 0:
        return f"-{-v}"
    if rng.random() < 0.15:
        return hex(v)
    return str(v)


def probe_src(k, form, ty, v, rng):
    """(function source, reports_value: bool, expected_accept)"""
    L = litsrc(v, rng)
    acc = in_range(ty, v)
    name = f"p{k}"
    if form == "annassign":
        body = f"    x: {ty} = {L}\n    return x\n"
    elif form == "return":
        body = f"    return {L}\n"
    elif form == "comptime":
        e = rng.choice([f"comptime({L})", f"comptime({v - 1} + 1)", f"comptime(({v}) * 1)"])
        body = f"    x: {ty} = {e}\n    return x\n"
    elif form == "tuple":
        body = f"    t: tuple[{ty}, bool] = ({L}, True)\n    return t[0]\n"
    elif form == "array":
        body = f"    a: array[{ty}, 2] = array({L}, 0)\n    return a[0]\n"
    elif form == "unannotated":
        # synthesised literals are int
        if ty != "int":
            body = f"    x = nat({L})\n    return x\n"
            acc = in_range("int", v) and v >= 0  # int literal first, then nat() of a non-negative int
        else:
            body = f"    x = {L}\n    return x\n"
    elif form == "argument":
        body = f"    return id_{ty}({L})\n"
    elif form == "comptime_list":
        # a comptime Python list constant: every element (not just the first) is range-checked
        pos = rng.randrange(3)
        items = [str(rng.randint(0, 9)) for _ in range(3)]
        items[pos] = str(v)
        body = f"    xs: frozenarray[{ty}, 3] = comptime([{', '.join(items)}])\n    return xs[{pos}]\n"
    elif form == "array_later":
        pos = rng.randrange(1, 3)
        items = [str(rng.randint(0, 9)) for _ in range(3)]
        items[pos] = L
        body = f"    a: array[{ty}, 3] = array({', '.join(items)})\n    return a[{pos}]\n"
    elif form == "comptime_tuple":
        body = f"    t: tuple[{ty}, {ty}] = comptime(({v}, 0))\n    return t[0]\n"
    else:
        raise AssertionError(form)
    return f"@guppy\ndef {name}() -> {ty}:\n{body}\n", acc


def run_case(ctx, rng, idx, params, tier):
    from vf import ctx as C

    probes = []
    text = [HDR]
    for k in range(40):
        v = rng.choice(BOUNDARY) if rng.random() < 0.6 else rng.choice([1, -1]) * rng.getrandbits(rng.randint(1, 70))
        ty = rng.choice(["int", "nat"])
        form = rng.choice(FORMS)
        if k == 0:
            # fixed probe of the public `result` overload with a nat >= 2^63 (reported via k % 4 == 0)
            v, ty, form = rng.choice([U64 - 1, I63, I63 + 12345]), "nat", rng.choice(["annassign", "return"])
        if form == "unannotated":
            ty = "int"  # an unannotated literal is synthesised at int
        src, acc = probe_src(k, form, ty, v, rng)
        text.append(src)
        probes.append((k, form, ty, v, acc, src))
    ld = ctx.load("".join(text), "lit")
    viols = []
    accepted = []
    cells = set()
    counters = {"literals_checked": 0, "literals_emulated": 0, "accepted": 0, "rejected": 0}
    for k, form, ty, v, acc, src in probes:
        d = getattr(ld.module, f"p{k}")
        counters["literals_checked"] += 1
        cells.add(f"{form}:{ty}:{range_class(ty, v)}")
        try:
            d.check()
            got = True
        except BaseException as e:
            if C.raised_in_harness(e):
                raise
            if not C.is_guppy_error(e):
                viols.append({"mech": f"C17:crash:{C.innermost_repo_frame(e)}",
                              "witness": {"source": src, "value": v, "error": C.short_tb(e)}})
                continue
            got = False
        counters["accepted" if got else "rejected"] += 1
        if got != acc:
            kind = "accepted-out-of-range" if got else "rejected-in-range"
            viols.append({"mech": f"C17:{kind}:{form}:{ty}:{range_class(ty, v)}",
                          "witness": {"source": src, "value": v, "type": ty, "form": form}})
        elif got:
            accepted.append((k, form, ty, v))
    if accepted:
        main = HDR + "".join(src for k, _, _, _, _, src in probes if any(a[0] == k for a in accepted))
        # nat values are observed through the nat variant of `result` directly; every fourth one
        # through the public overload, which is where the known finding
        # C17:nat>=2^63-reported-as-negative-through-result-overload lives
        via_overload = {k for k, _, ty, _ in accepted if ty == "nat" and k % 4 == 0}
        main += "@guppy\ndef main() -> None:\n" + "".join(
            f'    x{k} = p{k}()\n'
            f'    {"_result_nat" if ty == "nat" and k not in via_overload else "result"}("v{k}", x{k})\n'
            for k, _, ty, _ in accepted)
        try:
            ld2 = ctx.load(main, "litrun")
            out = ctx.emulate(ld2.main.compile())
            stream = out.stream()
            for (k, form, ty, v), (tag, got) in zip(accepted, stream):
                counters["literals_emulated"] += 1
                if got != v:
                    mech = f"C17:value-not-preserved:{form}:{ty}"
                    if k in via_overload and v >= I63 and got == v - U64:
                        mech = "C17:nat>=2^63-reported-as-negative-through-result-overload"
                    viols.append({"mech": mech,
                                  "witness": {"form": form, "type": ty, "value": v, "observed": got,
                                              "reported_via": "result" if k in via_overload or ty != "nat"
                                              else "_result_nat"}})
            if out.panic or len(stream) != len(accepted):
                viols.append({"mech": "C17:panic-or-missing-results",
                              "witness": {"panic": out.panic, "n": len(stream), "expected_n": len(accepted)}})
        except BaseException as e:
            if C.raised_in_harness(e) or isinstance(e, C.HarnessError):
                raise
            viols.append({"mech": f"C17:compile-failed-after-check:{C.innermost_repo_frame(e)}",
                          "witness": {"text": main, "error": C.short_tb(e)}})
    rec = {"status": "violated" if viols else "held", "fp": f"case{idx}", "counters": counters,
           "sets": {"cells": sorted(cells)}}
    if viols:
        rec["violations"] = viols[:20]
    if idx < 2:
        rec["sample"] = {"probes": [p[5] for p in probes[:4]]}
    return rec


def replay(ctx, w):
    from vf import ctx as C

    src = w.get("source")
    if not src:
        return {"status": "held", "note": "value witness: re-run the check"}
    ld = ctx.load(HDR + src)
    name = src.split("def ")[1].split("(")[0]
    try:
        getattr(ld.module, name).check()
        got = True
    except BaseException as e:
        if not C.is_guppy_error(e):
            return {"status": "violated", "observed": "crash"}
        got = False
    exp = in_range(w["type"], w["value"]) if "type" in w else got
    return {"status": "held" if got == exp else "violated", "accepted": got, "expected": exp}
