"""C09 — Dataflow analyses equal the path-based solution in any visit order.

Monitor: the real `CFG.analyze` is run with `set` in guppylang_internals.cfg.analysis replaced by a
harness-controlled SchedSet whose pop() order the harness chooses (namespace injection; no /repo
edit).  Workload A: synthetic CFG objects (random edges, self-loops, unreachable blocks, dummy
edges, inout variables).  Workload B: CFGs the real builder produces for generated programs.
Oracle O-flow: explicit path search (reachability + cycle peeling), not a worklist."""
from __future__ import annotations

import ast
import hashlib
import random

LEVEL = "exploration"
LEVEL_TEXT = ("Schedule-controlled execution of the real fixpoint analyses: every result is compared with "
              "an independent path-based oracle, under exhaustively enumerated pop orders for small "
              "CFGs and sampled orders for larger ones; distinct pop sequences actually taken are "
              "counted. Bounded CFG size; no claim beyond the sizes and schedules observed.")
LEVEL_NOTE = ("Trusted: the oracle's reading of the statement (liveness: some path reads before "
              "reassignment; borrowed variables additionally live along never-reassigning infinite "
              "paths, which is what the code's non-bottom initial value encodes; definite/maybe "
              "assignment over all/some paths from predecessor-less blocks). Synthetic CFGs are pruned "
              "like CFGBuilder.build does (no edges from unreachable into reachable blocks, no dummy "
              "edges into reachable blocks).")
TECHNIQUE = "schedule injection (harness-chosen worklist pop order) + path-search reference model on real CFG.analyze"
RULE = ("A: CFGs with 3-8 blocks, random real/dummy edges, self-loops, unreachable blocks, 4 variables "
        "with random use/assign sets, random inout set; schedules: DFS enumeration of pop choices up "
        "to a cap, then random. B: CFGs built by the real CFGBuilder from G-prog programs and "
        "constant-condition programs. distinct = distinct (edge list, use/def sets) fingerprints; "
        "non-trivial = has a cycle, a dummy edge or an unreachable block")
FLOORS = {"schedules_run": 200, "pops": 1000}
VARS = ["a", "b", "c", "d"]


def plan(tier, seed):
    n = 320 if tier == "quick" else 6000
    return {"n_cases": n, "params": {"sched_cap": 120 if tier == "quick" else 600},
            "floors": {"evaluations": n // 2, "distinct_schedules": 50}}


# ------------------------------------------------------------------------------ schedule control
class Sched:
    def __init__(self):
        self.mode = "first"
        self.prefix: list[int] = []
        self.trace: list[tuple[int, int]] = []  # (choice, arity)
        self.rng = random.Random(0)
        self.pops = 0

    def choose(self, n: int) -> int:
        self.pops += 1
        k = len(self.trace)
        if self.mode == "dfs" and k < len(self.prefix):
            c = min(self.prefix[k], n - 1)
        elif self.mode == "random":
            c = self.rng.randrange(n)
        elif self.mode == "last":
            c = n - 1
        else:
            c = 0
        self.trace.append((c, n))
        return c


SCHED = Sched()


class SchedSet(set):
    """`set` whose pop() order is chosen by the harness (elements ordered by bb.idx)."""

    def pop(self):
        items = sorted(self, key=lambda b: getattr(b, "idx", 0))
        x = items[SCHED.choose(len(items))]
        self.remove(x)
        return x


def worker_init(ctx, job):
    import guppylang_internals.cfg.analysis as an

    an.set = SchedSet  # namespace injection: `queue = set(bbs)` now builds a SchedSet


# ---------------------------------------------------------------------------------------- oracle
def oracle(bbs, entry, exit_bb, stats, def_before, maybe_before, inout):
    """Path-based solution. stats: bb -> (used set, assigned set). Edges include dummy edges
    (CFG.analyze always runs with include_unreachable=True)."""
    succ = {b: list(b.successors) + list(b.dummy_successors) for b in bbs}
    pred = {b: list(b.predecessors) + list(b.dummy_predecessors) for b in bbs}
    used = {b: set(stats[b][0]) for b in bbs}
    assigned = {b: set(stats[b][1]) for b in bbs}
    for x in inout:
        used[exit_bb].add(x)
    universe = set(def_before) | set(maybe_before)
    for b in bbs:
        universe |= used[b] | assigned[b]

    live = {b: set() for b in bbs}
    for x in universe:
        # finite paths: backwards reachability from using blocks through non-assigning blocks
        lv = {b for b in bbs if x in used[b]}
        stack = list(lv)
        while stack:
            b = stack.pop()
            for p in pred[b]:
                if p not in lv and x not in assigned[p]:
                    lv.add(p)
                    stack.append(p)
        if x in inout:
            # infinite paths inside blocks that neither use nor assign x: peel blocks without a
            # successor inside the region; what remains lies on / reaches a cycle
            region = {b for b in bbs if x not in used[b] and x not in assigned[b]}
            changed = True
            while changed:
                changed = False
                for b in list(region):
                    if not any(s in region for s in succ[b]):
                        region.discard(b)
                        changed = True
            lv |= region
        for b in lv:
            live[b].add(x)

    roots = [b for b in bbs if not pred[b]]
    all_vars = set(def_before)
    for b in bbs:
        all_vars |= assigned[b]
    # maybe-assigned: some path from a root along which x was assigned before reaching B, or x
    # definitely assigned before the root
    maybe = {b: set() for b in bbs}
    defi = {b: set() for b in bbs}
    for x in all_vars | set(maybe_before):
        # forward reachability of "x has been assigned": start at successors of assigning blocks
        # and at roots if x pre-assigned
        m = set()
        stack = []
        if x in def_before:
            for r in roots:
                if r not in m:
                    m.add(r)
                    stack.append(r)
        for b in bbs:
            if x in assigned[b]:
                for s in succ[b]:
                    if s not in m:
                        m.add(s)
                        stack.append(s)
        while stack:
            b = stack.pop()
            for s in succ[b]:
                if s not in m:
                    m.add(s)
                    stack.append(s)
        for b in m:
            maybe[b].add(x)
        # definitely assigned: no path from a root (where x is not pre-assigned) to B avoiding
        # assignments of x
        if x in all_vars:
            bad = set()
            stack = []
            if x not in def_before:
                for r in roots:
                    bad.add(r)
                    stack.append(r)
            while stack:
                b = stack.pop()
                if x in assigned[b]:
                    continue
                for s in succ[b]:
                    if s not in bad:
                        bad.add(s)
                        stack.append(s)
            for b in bbs:
                if b not in bad:
                    defi[b].add(x)
    return live, defi, maybe


def run_schedules(cfg, analyze_args, cap, rng, counters, schedset, analyze_fn=None):
    """Run cfg.analyze under many pop orders; returns list of (trace_hash, live, def, maybe)."""
    results = []

    def one():
        SCHED.trace = []
        (analyze_fn or type(cfg).analyze)(cfg, *analyze_args)
        h = hashlib.sha1(repr([c for c, _ in SCHED.trace]).encode()).hexdigest()[:12]
        live = {b.idx: frozenset(cfg.live_before[b].keys()) for b in cfg.bbs}
        da = {b.idx: frozenset(cfg.ass_before[b]) for b in cfg.bbs}
        ma = {b.idx: frozenset(cfg.maybe_ass_before[b]) for b in cfg.bbs}
        counters["schedules_run"] = counters.get("schedules_run", 0) + 1
        schedset.add(h)
        results.append((list(SCHED.trace), live, da, ma))

    # DFS enumeration with replay
    SCHED.mode = "dfs"
    SCHED.prefix = []
    n = 0
    exhausted = False
    while n < cap:
        one()
        n += 1
        tr = SCHED.trace
        # next prefix: odometer increment from the end
        k = len(tr) - 1
        while k >= 0 and tr[k][0] + 1 >= tr[k][1]:
            k -= 1
        if k < 0:
            exhausted = True
            break
        SCHED.prefix = [c for c, _ in tr[:k]] + [tr[k][0] + 1]
    if not exhausted:
        SCHED.mode = "random"
        SCHED.rng = random.Random(rng.random())
        for _ in range(min(cap, 64)):
            one()
        SCHED.mode = "last"
        one()
    else:
        counters["cfgs_schedules_exhausted"] = counters.get("cfgs_schedules_exhausted", 0) + 1
    SCHED.mode = "first"
    return results


def compare(cfg, results, orc):
    live, defi, maybe = orc
    viol = []
    for trace, lv, da, ma in results:
        for b in cfg.bbs:
            if lv[b.idx] != frozenset(live[b]):
                viol.append(("live", b.idx, sorted(lv[b.idx]), sorted(live[b]), trace))
            if da[b.idx] != frozenset(defi[b]):
                viol.append(("def_assigned", b.idx, sorted(da[b.idx]), sorted(defi[b]), trace))
            if ma[b.idx] != frozenset(maybe[b]):
                viol.append(("maybe_assigned", b.idx, sorted(ma[b.idx]), sorted(maybe[b]), trace))
        if viol:
            break
    first = results[0]
    for r in results[1:]:
        if r[1:] != first[1:]:
            viol.append(("schedule_dependent", -1, "results differ between pop orders", "",
                         r[0]))
            break
    return viol


# ------------------------------------------------------------------------------ workload A
def stmt_for(uses, assigns):
    stmts = []
    if uses:
        stmts.append(ast.parse("(" + ", ".join(uses) + ",)").body[0])
    for a in assigns:
        stmts.append(ast.parse(f"{a} = 0").body[0])
    return stmts


def build_synthetic(rng, spec=None):
    from guppylang_internals.cfg.cfg import CFG

    if spec is None:
        n = rng.randint(3, 8)
        spec = {"n": n, "edges": [], "dummy": [], "blocks": [], "inout": [], "pre": []}
        for i in range(n):
            uses = [v for v in VARS if rng.random() < 0.3]
            assigns = [v for v in VARS if rng.random() < 0.3]
            spec["blocks"].append([uses, assigns])
        # block 0 entry, block 1 exit (as in CFG()); never edges into entry, none out of exit
        for i in range(n):
            if i == 1:
                continue
            k = rng.choice([0, 1, 1, 2, 2])
            tg = [j for j in range(n) if j != 0]
            for j in rng.sample(tg, min(k, len(tg))):
                (spec["dummy"] if rng.random() < 0.2 else spec["edges"]).append([i, j])
        # builder invariant: every block hangs off some earlier block (real or dummy edge)
        reach = {0}
        changed = True
        adj = {}
        for i, j in spec["edges"] + spec["dummy"]:
            adj.setdefault(i, []).append(j)
        def _close():
            stack = list(reach)
            while stack:
                b = stack.pop()
                for s2 in adj.get(b, []):
                    if s2 not in reach:
                        reach.add(s2)
                        stack.append(s2)
        _close()
        for j in range(1, n):
            if j not in reach:
                src = rng.choice(sorted(reach - {1}) or [0])
                spec["dummy"].append([src, j])
                adj.setdefault(src, []).append(j)
                reach.add(j)
                _close()
        spec["inout"] = [v for v in VARS if rng.random() < 0.25]
        spec["pre"] = sorted(set(spec["inout"]) | {v for v in VARS if rng.random() < 0.2})
        spec["exit_uses_blocked"] = True
    cfg = CFG()
    while len(cfg.bbs) < spec["n"]:
        cfg.new_bb()
    for b, (uses, assigns) in zip(cfg.bbs, spec["blocks"]):
        b.statements = stmt_for(uses, assigns)
    for i, j in spec["edges"]:
        cfg.link(cfg.bbs[i], cfg.bbs[j])
    for i, j in spec["dummy"]:
        cfg.dummy_link(cfg.bbs[i], cfg.bbs[j])
    cfg.update_reachable()
    # prune like CFGBuilder.build
    for bb in cfg.bbs:
        if not bb.reachable:
            for s in list(bb.successors):
                if s.reachable:
                    bb.successors.remove(s)
                    s.predecessors.remove(bb)
        else:
            for p in bb.dummy_predecessors:
                p.dummy_successors.remove(bb)
            bb.dummy_predecessors = []
    return cfg, spec


def fingerprint(cfg, stats):
    edges = sorted((b.idx, s.idx) for b in cfg.bbs for s in b.successors)
    dummy = sorted((b.idx, s.idx) for b in cfg.bbs for s in b.dummy_successors)
    sd = [(b.idx, sorted(stats[b][0]), sorted(stats[b][1])) for b in cfg.bbs]
    return hashlib.sha1(repr((edges, dummy, sd)).encode()).hexdigest()[:16]


def nontrivial(cfg):
    has_dummy = any(b.dummy_successors for b in cfg.bbs)
    unreachable = any(not b.reachable for b in cfg.bbs)
    # cycle detection
    color = {}

    def dfs(b):
        color[b] = 1
        for s in b.successors + b.dummy_successors:
            if color.get(s) == 1:
                return True
            if s not in color and dfs(s):
                return True
        color[b] = 2
        return False

    cyc = any(dfs(b) for b in cfg.bbs if b not in color)
    return has_dummy or unreachable or cyc


def judge_cfg(cfg, args, cap, rng, rec_counters, schedset, describe, analyze_fn=None):
    def_before, maybe_before, inout = args
    results = run_schedules(cfg, (set(def_before), set(maybe_before), list(inout)), cap, rng,
                            rec_counters, schedset, analyze_fn)
    stats = {b: (set(b.vars.used.keys()), set(b.vars.assigned.keys())) for b in cfg.bbs}
    # the analysis adds the inout sentinel to exit.used itself on a private stats dict; ours is
    # recomputed from b.vars, so add nothing here: oracle() adds inout uses at exit
    orc = oracle(cfg.bbs, cfg.entry_bb, cfg.exit_bb, stats, def_before, maybe_before, inout)
    viol = compare(cfg, results, orc)
    out = []
    for kind, bidx, got, exp, trace in viol[:3]:
        mech = f"C09:{kind}"
        out.append({"mech": mech, "witness": {"cfg": describe, "block": bidx, "got": got,
                                               "expected": exp,
                                               "pop_choices": [c for c, _ in trace]}})
    return out, stats


def run_synthetic(rng, params, spec=None):
    counters, schedset = {}, set()
    cfg, spec = build_synthetic(rng, spec)
    pre = set(spec["pre"])
    args = (pre, pre, spec["inout"])
    viol, stats = judge_cfg(cfg, args, params.get("sched_cap", 120), rng, counters, schedset,
                            {"kind": "synthetic", "spec": spec})
    # sanity: synthesised statements yield the intended use/assign sets
    for b, (uses, assigns) in zip(cfg.bbs, spec["blocks"]):
        exp_used = set(uses) | (set(spec["inout"]) if b is cfg.exit_bb else set())
        if stats[b][1] != set(assigns) or stats[b][0] != exp_used:
            raise RuntimeError("harness: synthetic statement stats mismatch")
    counters["pops"] = SCHED.pops
    SCHED.pops = 0
    counters["cfgs_synthetic"] = 1
    rec = {"status": "violated" if viol else "held",
           "fp": fingerprint(cfg, stats) if nontrivial(cfg) else None,
           "counters": counters, "sets": {"distinct_schedules": sorted(schedset)}}
    if viol:
        rec["violations"] = viol
    return rec, spec


# ------------------------------------------------------------------------------ workload B
CONST_TEMPLATES = [
    "    w = 4\n    if False and False:\n        w -= 1\n    result('a', w)\n",
    "    w = 4\n    while w > 0 and ((not True) and False):\n        w -= 1\n    result('a', w)\n",
    "    x = 1\n    if True or x > 2:\n        y = 2\n    else:\n        y = 3\n    result('a', x + y)\n",
    "    x = 1\n    while True:\n        x += 1\n        if x > 5:\n            break\n    result('a', x)\n",
    "    x = 1\n    if (False or False) and x > 0:\n        x = 2\n    result('a', x)\n",
    "    x = 1\n    return\n    result('a', x)\n",
    "    x = 1\n    for i in range(3):\n        if True:\n            continue\n        x += i\n    result('a', x)\n",
]


def run_real(ctx, rng, idx, params):
    """Real CFGs: wrap CFG.analyze so every call made by the checker is re-run under schedules."""
    from guppylang_internals.cfg.cfg import CFG

    from vf import ctx as C
    from vf.gen import gprog

    counters, schedset = {}, set()
    entries = ["main"]
    r_ = rng.random()
    if r_ < 0.25:
        body = rng.choice(CONST_TEMPLATES)
        text = gprog.Program.HEADER + "@guppy\ndef main() -> None:\n" + body
    elif r_ < 0.5:
        prog = gprog.generate(rng)
        text = prog.text()
        entries = [f.name for f in prog.g.funcs] + ["main"]
    elif r_ < 0.7:
        # linear fragment: borrowed qubit / struct parameters are the analysis's inout variables
        from vf.gen import glinear

        text, _fp, _fn = glinear.generate(rng, accept_only=(rng.random() < 0.5))
    elif r_ < 0.85:
        from vf.gen import ggeneric

        text, _fp, entries = ggeneric.generate(rng)
    else:
        # definedness generator: CFGs with unassigned variables, dead code, constant conditions
        from vf.props import c08

        text = c08.program(c08.G(rng, const_conds=(rng.random() < 0.3)).block(0, False))
    counters["real_corpus_" + ("const" if r_ < 0.25 else "gprog" if r_ < 0.5 else "glinear" if r_ < 0.7
                               else "ggeneric" if r_ < 0.85 else "c08")] = 1
    all_viol = []
    fps = []
    orig = CFG.analyze
    cap = max(8, params.get("sched_cap", 120) // 8)

    def analyze(self, def_ass_before, maybe_ass_before, inout_vars):
        args = (set(def_ass_before), set(maybe_ass_before), list(inout_vars))
        SCHED.mode = "first"
        res = orig(self, def_ass_before, maybe_ass_before, inout_vars)
        if maybe_ass_before != def_ass_before:
            counters["real_cfgs_pre_maybe_differs"] = counters.get("real_cfgs_pre_maybe_differs", 0) + 1
            return res
        viol, stats = judge_cfg(self, args, cap, rng, counters, schedset,
                                {"kind": "real", "text": text}, orig)
        all_viol.extend(viol)
        if nontrivial(self):
            fps.append(fingerprint(self, stats))
        counters["cfgs_real"] = counters.get("cfgs_real", 0) + 1
        SCHED.mode = "first"
        return orig(self, def_ass_before, maybe_ass_before, inout_vars)

    CFG.analyze = analyze
    try:
        ld = ctx.load(text)
        for en in entries:
            if not hasattr(ld.module, en):
                continue
            try:
                getattr(ld.module, en).check()
            except BaseException as e:
                if not C.is_guppy_error(e):
                    counters["non_guppy_exception_during_check"] = 1
                    import os
                    if os.environ.get("VERIF_TRACE"):
                        import traceback
                        traceback.print_exc()
    finally:
        CFG.analyze = orig
    counters["pops"] = SCHED.pops
    SCHED.pops = 0
    if not counters.get("cfgs_real"):
        return {"status": "discard", "fp": None, "detail": "no CFG analysed", "counters": counters}
    rec = {"status": "violated" if all_viol else "held",
           "fp": hashlib.sha1(repr(fps).encode()).hexdigest()[:16] if fps else None,
           "counters": counters, "sets": {"distinct_schedules": sorted(schedset)}}
    if all_viol:
        rec["violations"] = all_viol[:3]
    return rec


def run_case(ctx, rng, idx, params, tier):
    if idx % 4 == 3:
        rec = run_real(ctx, rng, idx, params)
        if idx == 3 and rec["status"] != "discard":
            rec["sample"] = {"workload": "B (real builder CFGs)", "counters": rec["counters"]}
        return rec
    rec, spec = run_synthetic(rng, params)
    if idx < 2:
        rec["sample"] = {"workload": "A (synthetic)", "spec": spec}
    return rec


def replay(ctx, w):
    rng = random.Random(0)
    if w["cfg"]["kind"] == "synthetic":
        rec, _ = run_synthetic(rng, {"sched_cap": 600}, spec=w["cfg"]["spec"])
        return rec
    # real: re-check the program text under schedules
    from vf.gen import gprog

    text = w["cfg"]["text"]
    orig_gen, orig_choice = gprog.generate, None

    class _P:
        def text(self_inner):
            return text

    gprog.generate = lambda r: _P()
    try:
        r2 = random.Random(1)
        r2.random = lambda: 0.99  # force the gprog branch
        return run_real(ctx, r2, 3, {"sched_cap": 600})
    finally:
        gprog.generate = orig_gen
