"""C10 — Compiler output and diagnostics are deterministic.

A corpus of accepted and rejected programs is processed in several fresh interpreter processes that
differ in PYTHONHASHSEED (string-hashed sets), in a salt mixed into BB.__hash__ (identity-hashed
sets of basic blocks) and in heap noise (allocation addresses).  Oracle: per program the set of
outcomes — sha256 of Package.to_bytes() on success, the rendered diagnostic on failure — has
exactly one element."""
from __future__ import annotations

import copy
import hashlib
import json
import os
import subprocess
import sys
from pathlib import Path

from vf.gen import glinear, gprog, mutate

LEVEL = "exploration"
LEVEL_TEXT = ("Perturbation testing across fresh processes: hash seed, salted basic-block hashes and heap "
              "noise vary the iteration order of every string- and identity-hashed set in the compiler; "
              "outcomes must coincide. Samples the space of orders (counted), does not enumerate it.")
LEVEL_NOTE = ("Trusted: the perturbations actually change set orders (the salt changes BB set order by "
              "construction; PYTHONHASHSEED changes str hashing). Programs are written to the same path "
              "in every process so file names in diagnostics do not differ.")
TECHNIQUE = "perturbation of hash seeds / object-hash salts / heap layout across fresh processes with an outcome-set-size monitor"
RULE = ("corpus per case: 3 accepted G-prog programs, 2 G-linear programs, 5 mutants (C02 mutators), "
        "3 programs with nested functions capturing 2-5 variables of random names, 4 programs of "
        "C08's definedness generator (mostly rejected, nested branches/loops), 3 programs reading a "
        "variable assigned only behind 2-4 nested branches/loops, 3 programs using an undefined name in "
        "several blocks of dead code, "
        "and 4 targeted shapes with >=2 simultaneous candidates for the reported item (branch type "
        "mismatches on 3 variables, 3 comptime parameters on an entry point, 2 leaked qubits, 2 "
        "undefined variables); 6 (quick) / 12 (thorough) configurations each. distinct = distinct "
        "programs; non-trivial = rejected, or contains a branch or loop")
FLOORS = {"programs_compared": 100, "configurations_run": 20}

TARGETED = [
    # (text, entry, entrypoint?)
    ("from guppylang import guppy\n\n@guppy\ndef main(c: bool) -> int:\n    if c:\n        alpha = 1\n        beta = 1.0\n"
     "        gamma = 2\n    else:\n        alpha = 1.0\n        beta = 1\n        gamma = 2.0\n"
     "    return int(alpha) + int(beta) + int(gamma)\n", "main", False),
    ("from guppylang import guppy\nfrom guppylang.std.builtins import comptime\n\n@guppy\n"
     "def main(alpha: int @comptime, beta: bool @comptime, gamma: float @comptime) -> int:\n    return alpha\n",
     "main", True),
    ("from guppylang import guppy\nfrom guppylang.std.quantum import qubit\n\n@guppy\ndef main() -> None:\n"
     "    qa = qubit()\n    qb = qubit()\n    qc = qubit()\n", "main", True),
    ("from guppylang import guppy\n\n@guppy\ndef main(c: bool) -> int:\n    if c:\n        ua = 1\n        ub = 2\n"
     "        uc = 3\n    return ua + ub + uc\n", "main", False),
    ("from guppylang import guppy\nfrom guppylang.std.builtins import array\n\nT = guppy.type_var('T')\n"
     "U = guppy.type_var('U')\n\n@guppy\ndef pick(x: T, y: U) -> T:\n    return x\n\n@guppy\n"
     "def main() -> None:\n    pick([], [])\n", "main", True),
    ("from guppylang import guppy\nfrom guppylang.std.quantum import qubit, discard\n\n@guppy.struct\nclass QQ:\n"
     "    a: qubit\n    b: qubit\n    c: qubit\n\n@guppy\ndef main(p: QQ @owned) -> None:\n    pass\n"
     .replace("@owned", "@owned").replace("from guppylang.std.quantum import qubit, discard",
                                          "from guppylang.std.quantum import qubit, discard\nfrom guppylang.std.builtins import owned"),
     "main", False),
]


WORDS = ["alpha", "beta", "gamma", "delta", "eps", "zeta", "eta", "theta", "iota", "kappa", "lam", "mu",
         "nu", "xi", "omi", "rho", "sigma", "tau", "ups", "phi", "chi", "psi", "omega", "aa", "bb", "cc"]


def capture_prog(rng):
    """Nested functions capturing 2-5 outer variables (experimental closures): the order of the
    captured variables fixes the lifted function's extra inputs, so it must not depend on set order."""
    names = rng.sample(WORDS, rng.randint(3, 6))
    tys = {n: rng.choice(["int", "int", "float", "bool"]) for n in names}
    lit = {"int": lambda: str(rng.randint(1, 9)), "float": lambda: rng.choice(["0.5", "1.5", "2.25"]),
           "bool": lambda: rng.choice(["True", "False"])}
    L = ["from guppylang import guppy", "from guppylang.std.builtins import result", "", "@guppy",
         "def main(pp: int) -> int:"]
    for n in names:
        L.append(f"    {n} = {lit[tys[n]]()}")

    def use(n):
        return {"int": n, "float": f"int({n})", "bool": f"int({n})"}[tys[n]]

    inners = []
    for k in range(rng.randint(1, 2)):
        caps = rng.sample(names, rng.randint(2, min(5, len(names))))
        L.append(f"    def inner{k}(q: int) -> int:")
        if rng.random() < 0.4:
            L.append(f"        if q > 3:")
            L.append(f"            return {' + '.join(use(c) for c in caps[:2])}")
        L.append(f"        return q + {' + '.join(use(c) for c in caps)}")
        inners.append(f"inner{k}")
    L.append("    return " + " + ".join(f"{f}(pp)" for f in inners))
    return "\n".join(L) + "\n"


def maybe_undefined_prog(rng):
    """Rejected programs from C08's generator: undefined / maybe-undefined / branch-type errors under
    nested branches and loops, whose diagnostics pick one of several candidate blocks or variables."""
    from vf.props import c08

    g = c08.G(rng, const_conds=rng.random() < 0.5)
    body = g.block(0, False)
    return c08.program(body)


def nested_maybe_prog(rng):
    """A variable assigned only behind 2-4 nested branches / loops (on one or several arms) and read
    afterwards: rejected as maybe-undefined, and the diagnostic has several candidate conditions to
    blame; which one it names must not depend on set order."""
    conds = rng.sample(WORDS, 5)
    var = rng.choice(["xx", "res", "acc"])
    L = ["from guppylang import guppy", "", "@guppy",
         f"def main({', '.join(c + ': bool' for c in conds)}, nn: int) -> int:"]
    depth = rng.randint(2, 4)
    ind = "    "
    L.append(f"{ind}ii = 0")

    def nest(d, ind):
        c = conds[d % len(conds)]
        kind = rng.choice(["if", "if", "ifelse", "while", "elif"])
        if kind == "while":
            L.append(f"{ind}while {c} and ii < nn:")
            L.append(f"{ind}    ii += 1")
            inner(d, ind + "    ")
        elif kind == "if":
            L.append(f"{ind}if {c}:")
            inner(d, ind + "    ")
        elif kind == "ifelse":
            L.append(f"{ind}if {c}:")
            inner(d, ind + "    ")
            L.append(f"{ind}else:")
            L.append(f"{ind}    ii += 2")
        else:
            L.append(f"{ind}if {c} and ii > 5:")
            L.append(f"{ind}    ii += 3")
            L.append(f"{ind}elif {c}:")
            inner(d, ind + "    ")

    def inner(d, ind):
        if d + 1 >= depth:
            L.append(f"{ind}{var} = ii + {rng.randint(1, 9)}")
        else:
            nest(d + 1, ind)
            if rng.random() < 0.3:
                nest(d + 1, ind)

    nest(0, ind)
    L.append(f"{ind}return {var}")
    return "\n".join(L) + "\n"


def dead_undefined_prog(rng):
    """An undefined name used in several blocks that are reachable only through never-taken edges
    (after `while True:`, under `if False:`), behind at least one more block boundary: the
    diagnostic has several uses to point at."""
    v = rng.choice(["vv", "undef", "zz"])
    c1, c2 = rng.sample(WORDS, 2)
    L = ["from guppylang import guppy", "", "@guppy", f"def main({c1}: bool, {c2}: bool, nn: int) -> int:"]
    form = rng.randrange(3)
    if form == 0:
        L += ["    ii = 0", "    while True:", "        ii += 1", f"        if ii > nn and {c1}:", "            return ii"]
        ind = "    "
    elif form == 1:
        L += ["    ii = 0", "    if False:"]
        ind = "        "
    else:
        L += ["    ii = nn", f"    while {c1}:", "        ii += 1", "        return ii", "    return 0"]
        ind = "    "
    # the dead region: 2-4 uses of the undefined name in different blocks
    uses = rng.randint(2, 4)
    L.append(f"{ind}if {c2}:")
    L.append(f"{ind}    ii = {v} + 1")
    if uses >= 3:
        L.append(f"{ind}    while {c1}:")
        L.append(f"{ind}        ii += {v}")
    L.append(f"{ind}else:")
    L.append(f"{ind}    ii = {v} + 2")
    if uses >= 4:
        L.append(f"{ind}if ii > 3:")
        L.append(f"{ind}    ii -= {v}")
    L.append(f"{ind}return ii")
    if form == 1:
        L.append("    return ii")
    return "\n".join(L) + "\n"


def plan(tier, seed):
    n = 16 if tier == "quick" else 160
    return {"n_cases": n, "params": {"configs": 6 if tier == "quick" else 12},
            "floors": {"evaluations": n // 2}, "workers": 8}


CASE_TIMEOUT_S = 600


def build_corpus(rng):
    progs = []
    for _ in range(3):
        p = gprog.generate(rng)
        progs.append({"text": p.text(), "entry": "main", "entrypoint": True, "kind": "accepted-gprog",
                      "nontrivial": p.nontrivial()})
    for _ in range(2):
        text, fp, fn = glinear.generate(rng)
        progs.append({"text": text, "entry": "main", "entrypoint": False, "kind": "accepted-glinear",
                      "nontrivial": fp is not None})
    for _ in range(3):
        p = gprog.generate(rng)
        text, muts = mutate.mutate_text(p.text(), rng, n=rng.choice([1, 2]))
        progs.append({"text": text, "entry": "main", "entrypoint": True, "kind": "mutant-gprog",
                      "nontrivial": True})
    for _ in range(2):
        _t, _fp, fn = glinear.generate(rng)
        fn = copy.deepcopy(fn)
        for _ in range(rng.choice([1, 2])):
            glinear.mutate(fn, rng)
        progs.append({"text": glinear.render(fn), "entry": "main", "entrypoint": False,
                      "kind": "mutant-glinear", "nontrivial": True})
    for _ in range(3):
        progs.append({"text": capture_prog(rng), "entry": "main", "entrypoint": False,
                      "kind": "closure-captures", "nontrivial": True})
    for _ in range(4):
        progs.append({"text": maybe_undefined_prog(rng), "entry": "main", "entrypoint": False,
                      "kind": "c08-definedness", "nontrivial": True})
    for _ in range(3):
        progs.append({"text": dead_undefined_prog(rng), "entry": "main", "entrypoint": False,
                      "kind": "undefined-in-dead-code", "nontrivial": True})
    for _ in range(3):
        progs.append({"text": nested_maybe_prog(rng), "entry": "main", "entrypoint": False,
                      "kind": "nested-maybe-undefined", "nontrivial": True})
    for text, entry, ep in rng.sample(TARGETED, 4):
        progs.append({"text": text, "entry": entry, "entrypoint": ep, "kind": "targeted", "nontrivial": True})
    return progs


def run_config(workdir, progs, hashseed, salt, noise_seed, tag):
    job = {"workdir": str(workdir), "programs": progs, "salt": salt, "noise_seed": noise_seed}
    jf = workdir / f"c10job_{tag}.json"
    jf.write_text(json.dumps(job))
    env = dict(os.environ, PYTHONHASHSEED=str(hashseed), PYTHONPATH=str(Path(__file__).resolve().parents[2]),
               PYTHONDONTWRITEBYTECODE="1")
    p = subprocess.run(["/venv/bin/python", "-m", "vf.c10_child", str(jf)], env=env, capture_output=True,
                       text=True, timeout=400, cwd=str(Path(__file__).resolve().parents[2]))
    for line in p.stdout.splitlines():
        if line.startswith("C10RESULT "):
            return json.loads(line[len("C10RESULT "):])
    raise RuntimeError(f"c10 child failed rc={p.returncode}: {p.stderr[-1500:]}")


def classify(prog, outcomes):
    kinds = {o[0] for o in outcomes}
    if kinds == {"err"}:
        # which part differs: title line or body
        firsts = {o[1].split("\n")[0] for o in outcomes}
        if len(firsts) > 1:
            return "C10:diagnostic-differs:reported-error"
        return "C10:diagnostic-differs:reported-location-or-name"
    if kinds == {"ok"}:
        return "C10:hugr-bytes-differ"
    return "C10:outcome-kind-differs:" + "+".join(sorted(kinds))


def run_case(ctx, rng, idx, params, tier):
    progs = build_corpus(rng)
    workdir = ctx.workdir / f"c10_{idx}"
    workdir.mkdir(parents=True, exist_ok=True)
    per_prog = [[] for _ in progs]
    nconf = params["configs"]
    configs = []
    for c in range(nconf):
        hs = [0, 1, 2, 3, 7, 11, 42, 99, 1234, 5, 17, 31337][c % 12]
        salt = None if c == 0 else rng.randint(1, 10**9)
        configs.append((hs, salt, rng.randint(0, 10**9)))
    for c, (hs, salt, ns) in enumerate(configs):
        outs = run_config(workdir, [{"text": p["text"], "entry": p["entry"], "entrypoint": p["entrypoint"]}
                                    for p in progs], hs, salt, ns, c)
        for k, o in enumerate(outs):
            per_prog[k].append(o)
    viols = []
    counters = {"programs_compared": 0, "configurations_run": nconf, "accepted_programs": 0,
                "rejected_programs": 0}
    fps = []
    for p, outs in zip(progs, per_prog):
        counters["programs_compared"] += 1
        kinds = {o[0] for o in outs}
        counters["accepted_programs" if kinds == {"ok"} else "rejected_programs"] += 1
        distinct = {json.dumps(o) for o in outs}
        if p["nontrivial"]:
            fps.append(hashlib.sha1(p["text"].encode()).hexdigest()[:12])
        if len(distinct) > 1:
            viols.append({"mech": classify(p, outs),
                          "witness": {"text": p["text"], "kind": p["kind"],
                                      "outcomes": sorted(distinct)[:4],
                                      "configs": [{"PYTHONHASHSEED": hs, "bb_salt": salt} for hs, salt, _ in configs]}})
    import shutil

    shutil.rmtree(workdir, ignore_errors=True)
    seen = set()
    uniq = [v for v in viols if not (v["mech"] + v["witness"]["kind"] in seen or seen.add(v["mech"] + v["witness"]["kind"]))]
    rec = {"status": "violated" if uniq else "held",
           "fp": hashlib.sha1(repr(fps).encode()).hexdigest()[:16] if fps else None,
           "counters": counters,
           "sets": {"program_fingerprints": fps, "hash_seeds": [str(c[0]) for c in configs]}}
    if uniq:
        rec["violations"] = uniq[:6]
    if idx < 2:
        rec["sample"] = {"program_kinds": [p["kind"] for p in progs], "configs": configs[:3]}
    return rec


def replay(ctx, w):
    workdir = ctx.workdir / "c10_replay"
    workdir.mkdir(parents=True, exist_ok=True)
    prog = [{"text": w["text"], "entry": "main", "entrypoint": False}]
    outs = []
    for c, conf in enumerate(w["configs"]):
        try:
            o = run_config(workdir, prog, conf["PYTHONHASHSEED"], conf["bb_salt"], c, c)[0]
        except Exception:
            prog[0]["entrypoint"] = True
            o = run_config(workdir, prog, conf["PYTHONHASHSEED"], conf["bb_salt"], c, c)[0]
        outs.append(json.dumps(o))
    return {"status": "violated" if len(set(outs)) > 1 else "held", "distinct_outcomes": len(set(outs))}
