"""C18 — range() yields Python's sequence.

Loops over range(...) in 1-, 2- and 3-argument form with runtime int64 bounds (incl. empty,
negative step, near +-2^63) run on the real emulator with a fuel guard; the emitted sequence must
equal list(range(...)).  Static part: array comprehensions over range(n) with annotated size m are
accepted iff m == n and have length n."""
from __future__ import annotations

LEVEL = "exploration"
LEVEL_TEXT = ("Boundary + random differential testing of range iteration against Python's range on the "
              "real emulator (fuel-guarded so a wrong end test cannot run unbounded), plus the static "
              "size rule for comptime-known range(n).")
LEVEL_NOTE = ("Trusted: Python's range as reference; sequences longer than 40 elements are not generated; "
              "adapter + lowering + installed selene.")
TECHNIQUE = "boundary-value differential testing of emitted iteration sequences against Python's range (reference-model monitor)"
RULE = ("(start, stop, step) with step in +-{1,2,3,7,2^62,2^63-1}, start/stop from small values, "
        "values within a few steps of +-2^63, and random; 1-/2-/3-argument forms; each loop reports its "
        "elements then a marker. Static: array(i for i in range(n)) annotated array[int, m], n,m in "
        "0..6. Use shapes: Range obtained in checking position (returned / annotated) from nat and int "
        "runtime values, range over a runtime nat, over a const generic and over a local shadowing the "
        "generic's name, comprehension over a const generic, nested dependent ranges. "
        "distinct = (form, step sign, empty?, near-bound?) cells")
FLOORS = {"loops_compared": 100, "static_sizes_checked": 10, "use_shape_loops_compared": 40}
I63 = 2**63
FUEL = 44
HDR = ("from guppylang import guppy\nfrom guppylang.std.builtins import result, array, Range, nat, range\n\n"
       "n = guppy.nat_var(\"n\")\n\n"
       f"@guppy\ndef r1(b: int) -> None:\n    fuel = {FUEL}\n    for i in range(b):\n"
       "        if fuel == 0:\n            break\n        fuel -= 1\n        result(\"i\", i)\n    result(\"end\", 1)\n\n"
       f"@guppy\ndef r2(a: int, b: int) -> None:\n    fuel = {FUEL}\n    for i in range(a, b):\n"
       "        if fuel == 0:\n            break\n        fuel -= 1\n        result(\"i\", i)\n    result(\"end\", 2)\n\n"
       f"@guppy\ndef r3(a: int, b: int, s: int) -> None:\n    fuel = {FUEL}\n    for i in range(a, b, s):\n"
       "        if fuel == 0:\n            break\n        fuel -= 1\n        result(\"i\", i)\n    result(\"end\", 3)\n\n")


def _loop(src, tag_end, ind="    "):
    return (f"{ind}fuel = {FUEL}\n{ind}for i in {src}:\n{ind}    if fuel == 0:\n{ind}        break\n"
            f"{ind}    fuel -= 1\n{ind}    result(\"i\", i)\n{ind}result(\"end\", {tag_end})\n")


# range() in other positions than `for i in range(..)` over ints: a Range obtained in *checking*
# position (return value, annotated assignment) from nat / int runtime values, a Range passed
# around, range over a const generic (statically sized) and over a local that shadows the generic's
# name afterwards, nested ranges whose inner bounds depend on the outer element.
SHAPES = (
    "@guppy\ndef mkn(k: nat) -> Range:\n    return range(k)\n\n"
    "@guppy\ndef mki(a: int, b: int) -> Range:\n    return range(a, b)\n\n"
    "@guppy\ndef g_ret(k: nat) -> None:\n" + _loop("mkn(k)", 4) + "\n"
    "@guppy\ndef g_ret2(a: int, b: int) -> None:\n" + _loop("mki(a, b)", 5) + "\n"
    "@guppy\ndef g_ann(k: nat, d: nat) -> None:\n    r: Range = range(k + d)\n" + _loop("r", 6) + "\n"
    "@guppy\ndef g_anni(a: int) -> None:\n    r: Range = range(a)\n" + _loop("r", 7) + "\n"
    "@guppy\ndef g_natfor(k: nat) -> None:\n" + _loop("range(k)", 8) + "\n"
    "@guppy\ndef g_gen(xs: array[int, n], limit: int) -> None:\n" + _loop("range(n)", 9)
    + "    n = limit\n" + _loop("range(n)", 10) + _loop("range(n, 0, -1)", 11) + "\n"
    "@guppy\ndef g_genc(xs: array[int, n]) -> None:\n"
    "    ys = array(i + 1 for i in range(n))\n    t = 0\n    for y in ys:\n        t += y\n"
    "    result(\"i\", t)\n    result(\"end\", 12)\n" + _loop("range(n)", 14) + "\n"
    "@guppy\ndef g_nest(a: int, b: int) -> None:\n    fuel = " + str(FUEL) + "\n    for i in range(a):\n"
    "        for j in range(i, b):\n            if fuel == 0:\n                break\n            fuel -= 1\n"
    "            result(\"i\", i * 100 + j)\n    result(\"end\", 13)\n\n"
)


def gen_shapes(rng):
    """[(call text, [(form, a, b, s, expected)...])] for the use-shape functions."""
    out = []
    for _ in range(rng.randint(4, 7)):
        k = rng.choice(["ret", "ret2", "ann", "anni", "natfor", "gen", "nest"])
        if k == "ret":
            v = rng.randint(0, 9)
            out.append((f"    g_ret({v})", [("ret", 0, v, 1, list(range(v)))]))
        elif k == "ret2":
            a, b = rng.randint(-5, 5), rng.randint(-5, 9)
            out.append((f"    g_ret2({a}, {b})", [("ret2", a, b, 1, list(range(a, b)))]))
        elif k == "ann":
            v, d = rng.randint(0, 6), rng.randint(0, 3)
            out.append((f"    g_ann({v}, {d})", [("ann", 0, v + d, 1, list(range(v + d)))]))
        elif k == "anni":
            v = rng.randint(-3, 9)
            out.append((f"    g_anni({v})", [("anni", 0, v, 1, list(range(v)))]))
        elif k == "natfor":
            v = rng.randint(0, 9)
            out.append((f"    g_natfor({v})", [("natfor", 0, v, 1, list(range(v)))]))
        elif k == "gen":
            m, lim = rng.randint(1, 6), rng.randint(-1, 8)
            arr = ", ".join(str(rng.randint(0, 9)) for _ in range(m))
            out.append((f"    g_gen(array({arr}), {lim})",
                        [("gen-const", 0, m, 1, list(range(m))),
                         ("gen-shadow", 0, lim, 1, list(range(lim))),
                         ("gen-shadow3", lim, 0, -1, list(range(lim, 0, -1)))]))
            if rng.random() < 0.6:
                out.append((f"    g_genc(array({arr}))",
                            [("gen-compr", 0, m, 1, [sum(i + 1 for i in range(m))]),
                             ("gen-const", 0, m, 1, list(range(m)))]))
        else:
            a, b = rng.randint(0, 4), rng.randint(0, 5)
            out.append((f"    g_nest({a}, {b})",
                        [("nest", a, b, 1, [i * 100 + j for i in range(a) for j in range(i, b)])]))
    return out


def plan(tier, seed):
    n = 48 if tier == "quick" else 1200
    return {"n_cases": n, "floors": {"evaluations": n // 2}}


def gen_triple(rng):
    form = rng.choice([1, 2, 3, 3, 3])
    step = 1
    if form == 3:
        step = rng.choice([1, 2, 3, 7, -1, -2, -3, -7, 2**62, -(2**62), 2**63 - 1, -(2**63) + 1, 5, -5])
    n = rng.choice([0, 0, 1, 2, 3, 5, 8, 13, 40])
    where = rng.random()
    if where < 0.45:
        start = rng.randint(-10, 10)
    elif where < 0.75:
        # near the int64 bounds, in the direction of travel
        if step > 0:
            start = I63 - 1 - rng.randint(0, 3) * abs(step) - rng.randint(0, 3)
            start -= max(0, n - rng.randint(0, 2)) * abs(step)
        else:
            start = -I63 + rng.randint(0, 3) * abs(step) + rng.randint(0, 3)
            start += max(0, n - rng.randint(0, 2)) * abs(step)
    else:
        start = rng.randint(-I63, I63 - 1)
    if form == 1:
        start = 0
        stop = rng.choice([n, -rng.randint(0, 5), rng.randint(0, 40)])
    else:
        delta = rng.randint(-2, 2) if rng.random() < 0.3 else 0
        stop = start + n * step + (delta if step > 0 else -delta)
        if rng.random() < 0.1:
            stop = start - step * rng.randint(0, 3)  # empty / reversed
    return form, start, stop, step


def in64(v):
    return -I63 <= v < I63


def run_case(ctx, rng, idx, params, tier):
    from vf import ctx as C

    plan_ = []
    calls = []
    tries = 0
    while len(plan_) < 30 and tries < 400:
        tries += 1
        form, a, b, s = gen_triple(rng)
        if not (in64(a) and in64(b) and in64(s)) or s == 0:
            continue
        exp = list(range(a, b, s))
        if len(exp) > 40:
            continue
        if form == 1:
            calls.append(f"    r1({b})")
        elif form == 2:
            calls.append(f"    r2({a}, {b})")
        else:
            calls.append(f"    r3({a}, {b}, {s})")
        plan_.append((form, a, b, s, exp))
    # static sizes
    static = []
    stext = []
    for k in range(6):
        n, m = rng.randint(0, 6), rng.randint(0, 6)
        if rng.random() < 0.5:
            m = n
        stext.append(f"@guppy\ndef st{k}() -> int:\n    xs: array[int, {m}] = array(i for i in range({n}))\n"
                     f"    return len(xs)\n\n")
        static.append((k, n, m))
    items = [(c, [e]) for c, e in zip(calls, plan_)]
    for it in gen_shapes(rng):
        items.insert(rng.randint(0, len(items)), it)
    calls = [c for c, _ in items]
    plan_ = [e for _, es in items for e in es]
    text = HDR + SHAPES + "".join(stext) + "@guppy\ndef main() -> None:\n" + "\n".join(calls) + "\n"
    ld = ctx.load(text, "range")
    viols = []
    counters = {"loops_compared": 0, "elements_compared": 0, "static_sizes_checked": 0,
                "use_shape_loops_compared": 0}
    cells = set()
    ok_static = []
    for k, n, m in static:
        counters["static_sizes_checked"] += 1
        try:
            getattr(ld.module, f"st{k}").check()
            got = True
        except BaseException as e:
            if C.raised_in_harness(e):
                raise
            if not C.is_guppy_error(e):
                viols.append({"mech": "C18:static-crash:" + C.innermost_repo_frame(e),
                              "witness": {"n": n, "m": m}})
                continue
            got = False
        cells.add(f"static:{'eq' if n == m else 'ne'}:{'acc' if got else 'rej'}")
        if got != (n == m):
            viols.append({"mech": f"C18:static-size:{'accepted-mismatch' if got else 'rejected-match'}",
                          "witness": {"n": n, "m": m}})
        elif got:
            ok_static.append((k, n))
    try:
        pkg = ld.main.compile()
    except BaseException as e:
        if C.raised_in_harness(e) or type(e).__name__ == "CaseTimeout":
            raise
        kind = "guppy-error" if C.is_guppy_error(e) else "crash:" + C.innermost_repo_frame(e)
        msg = ctx.render(e) if C.is_guppy_error(e) else C.short_tb(e, 3)
        viols.append({"mech": f"C18:valid-range-program-does-not-compile:{kind}",
                      "witness": {"error": str(msg)[:1500], "calls": calls[:12]}})
        return {"status": "violated", "fp": f"case{idx}", "counters": counters,
                "sets": {"cells": sorted(cells)}, "violations": viols}
    out = ctx.emulate(pkg)
    stream = out.stream()
    pos = 0
    for form, a, b, s, exp in plan_:
        got = []
        while pos < len(stream) and stream[pos][0] == "i":
            got.append(stream[pos][1])
            pos += 1
        if pos >= len(stream):
            viols.append({"mech": "C18:panic-or-truncated", "witness": {"panic": out.panic, "args": [a, b, s]}})
            break
        pos += 1  # end marker
        counters["loops_compared"] += 1
        counters["elements_compared"] += len(exp)
        if isinstance(form, str):
            counters["use_shape_loops_compared"] += 1
        near = any(abs(v) > I63 - 2**20 for v in (a, b)) or abs(s) >= 2**62
        cells.add(f"form{form}:{'pos' if s > 0 else 'neg'}:{'empty' if not exp else 'nonempty'}:"
                  f"{'near-bound' if near else 'small'}")
        if got != exp:
            # the element after the last one would leave int64: the end test wraps around
            nxt = (exp[-1] + s) if exp else a
            overflow = bool(exp) and not in64(nxt)
            mech = "C18:step-overflow-past-int64" if overflow else \
                f"C18:wrong-sequence:form{form}:{'pos' if s > 0 else 'neg'}-step"
            viols.append({"mech": mech, "witness": {"form": form, "start": a, "stop": b, "step": s,
                                                    "expected": exp, "observed": got[:48]}})
    seen = set()
    uniq = [v for v in viols if not (v["mech"] in seen or seen.add(v["mech"]))]
    rec = {"status": "violated" if uniq else "held", "fp": f"case{idx}", "counters": counters,
           "sets": {"cells": sorted(cells)}}
    if uniq:
        rec["violations"] = uniq
    if idx < 2:
        rec["sample"] = {"calls": calls[:6], "static": stext[0]}
    return rec


def replay(ctx, w):
    if "start" not in w:
        return {"status": "held", "note": "static witness: re-run the check"}
    a, b, s = w["start"], w["stop"], w["step"]
    text = HDR + f"@guppy\ndef main() -> None:\n    r3({a}, {b}, {s})\n"
    ld = ctx.load(text)
    out = ctx.emulate(ld.main.compile())
    got = [v for t, v in out.stream() if t == "i"]
    exp = list(range(a, b, s))
    return {"status": "held" if got == exp else "violated", "expected": exp, "observed": got}
