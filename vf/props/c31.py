"""C31 — Printed types read back as the same type.

For generated first-order types, the string shown in diagnostics (`str(ty)`) is parsed back with the
real annotation parser in a context whose globals define the generated structs; the result must
equal the original type.  Name-uniqueness half: distinct variables of generic function types whose
parameters share display names must be printed with pairwise distinct names."""
from __future__ import annotations

import ast
import re

from vf.gen import gtypes

LEVEL = "exploration"
LEVEL_TEXT = ("Round-trip testing str(ty) -> real type parser -> equality on generated first-order types "
              "(depth <= 4), and a distinct-name monitor on printed generic function types whose "
              "parameters deliberately share display names.")
LEVEL_NOTE = ("Trusted: /repo's own parser (tys/parsing.type_from_ast) is the read-back half by definition "
              "of the property; structural equality of /repo Type dataclasses.")
TECHNIQUE = "round-trip monitor (print -> real parser -> equality) over generated types; name-collision monitor"
RULE = ("first-order types over int/nat/float/bool/str/None/qubit, tuples of 0-3 elements (incl. nested "
        "1-tuples), array/frozenarray/Option/list, structs P0/G1/G2/G3/QS/AR with type and nat "
        "arguments, depth <= 4; generic function types with 2-4 parameters and repeated display names. "
        "distinct = distinct type shapes")
FLOORS = {"round_trips": 500, "name_uniqueness_checks": 50}
ENV = None


def plan(tier, seed):
    n = 480 if tier == "quick" else 4800
    return {"n_cases": n, "floors": {"evaluations": n // 2}}


def worker_init(ctx, job):
    global ENV
    ENV = gtypes.TyEnv(ctx)


def parse_back(s):
    from guppylang_internals.checker.core import Globals
    from guppylang_internals.engine import DEF_STORE
    from guppylang_internals.tys.parsing import TypeParsingCtx, type_from_ast

    node = ast.parse(s, mode="eval").body
    frame = DEF_STORE.frames[ENV.ld.module.P0.id]
    return type_from_ast(node, TypeParsingCtx(Globals(frame)))


def classify(t):
    """Mechanism class of a round-trip failure, from the term."""
    def has(pred, x):
        if pred(x):
            return True
        return any(has(pred, c) for c in kids(x))

    def kids(x):
        k = x[0]
        if k == "tuple":
            return list(x[1])
        if k in ("array", "farray", "option", "list"):
            return [x[1]]
        if k == "struct":
            return [a for a in x[2] if a[0] not in ("k", "cvar", "bcvar")]
        return []

    if has(lambda x: x[0] == "tuple" and len(x[1]) == 1, t):
        return "one-tuple-printed-without-trailing-comma"

    def sole_tuple_arg(x):
        if x[0] in ("option", "list"):
            return x[1][0] == "tuple"
        if x[0] == "struct":
            targs = [a for a in x[2]]
            return len(targs) == 1 and targs[0][0] == "tuple"
        return False

    if has(sole_tuple_arg, t):
        return "tuple-type-argument-printed-as-bare-tuple"
    return "other:" + t[0]


def run_case(ctx, rng, idx, params, tier):
    from vf import ctx as C

    ENV.refresh()
    viols = []
    counters = {"round_trips": 0, "name_uniqueness_checks": 0}
    shapes = set()
    for _ in range(100):
        g = gtypes.TGen(rng, functions=False, farrays=True, lists=False, big_consts=True)
        t = g.ty(rng.randint(1, 4))
        ty = ENV.ty(t)
        s = str(ty)
        counters["round_trips"] += 1
        shapes.add(repr(gtypes.shape(t)))
        try:
            back = parse_back(s)
        except BaseException as e:
            if C.raised_in_harness(e):
                raise
            kind = "guppy-error" if C.is_guppy_error(e) else type(e).__name__
            cl = classify(t)
            viols.append({"mech": f"C31:{cl}" if not cl.startswith("other") else
                          f"C31:printed-type-does-not-parse:{cl}:{kind}",
                          "witness": {"term": repr(t), "printed": s, "error": C.short_tb(e, 2)}})
            continue
        if back != ty:
            cl = classify(t)
            viols.append({"mech": f"C31:{cl}" if not cl.startswith("other") else
                          f"C31:reads-back-differently:{cl}",
                          "witness": {"term": repr(t), "printed": s, "read_back": str(back)}})
    # name uniqueness on generic function types
    from guppylang_internals.tys.param import ConstParam, TypeParam
    from guppylang_internals.tys.builtin import nat_type, array_type, int_type
    from guppylang_internals.tys.const import BoundConstVar
    from guppylang_internals.tys.ty import BoundTypeVar, FuncInput, FunctionType, InputFlags, TupleType

    for _ in range(10):
        k = rng.randint(2, 4)
        names = [rng.choice(["T", "T", "U", "n"]) for _ in range(k)]
        ps = []
        ins = []
        for i, nm in enumerate(names):
            if rng.random() < 0.3:
                ps.append(ConstParam(i, nm, nat_type()))
                ins.append(FuncInput(array_type(int_type(), BoundConstVar(nat_type(), nm, i)), InputFlags.NoFlags))
            else:
                ps.append(TypeParam(i, nm, True, True))
                ins.append(FuncInput(BoundTypeVar(nm, i, True, True), InputFlags.NoFlags))
        # add two existential vars sharing a display name
        from guppylang_internals.tys.ty import ExistentialTypeVar

        e1 = ExistentialTypeVar.fresh("X", True, True)
        e2 = ExistentialTypeVar.fresh("X", True, True)
        ft = FunctionType(ins + [FuncInput(e1, InputFlags.NoFlags), FuncInput(e2, InputFlags.NoFlags)],
                          TupleType([i.ty for i in ins]), ps)
        s = str(ft)
        counters["name_uniqueness_checks"] += 1
        m = re.match(r"forall (.*?)\. ", s)
        printed = [p.split(":")[0].strip() for p in m.group(1).split(",")] if m else []
        ex = re.findall(r"\?[\w']+", s)
        if len(printed) != k or len(set(printed)) != k:
            viols.append({"mech": "C31:bound-variable-names-collide",
                          "witness": {"display_names": names, "printed": s}})
        if len(set(ex)) != 2:
            viols.append({"mech": "C31:existential-variable-names-collide",
                          "witness": {"printed": s}})
    seen = set()
    uniq = [v for v in viols if not (v["mech"] in seen or seen.add(v["mech"]))]
    rec = {"status": "violated" if uniq else "held", "fp": f"case{idx}", "counters": counters,
           "sets": {"type_shapes": sorted(shapes)[:300]}}
    if uniq:
        rec["violations"] = uniq[:10]
    if idx < 2:
        rec["sample"] = {"printed": [str(ENV.ty(gtypes.TGen(rng, functions=False).ty(3))) for _ in range(3)]}
    return rec


def replay(ctx, w):
    if "term" not in w:
        return {"status": "held", "note": "name witness: re-run the check"}
    ENV.refresh()
    t = ast.literal_eval(w["term"])
    ty = ENV.ty(t)
    try:
        back = parse_back(str(ty))
    except BaseException:
        return {"status": "violated", "printed": str(ty), "observed": "does not parse"}
    return {"status": "held" if back == ty else "violated", "printed": str(ty), "read_back": str(back)}
