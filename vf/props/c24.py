"""C24 — Unitary contexts reject non-unitary quantum operations.

Enumeration of (context flags, context form, callee flags, argument kind, placement): each cell is
a tiny module checked by the real checker; the rule table from the statement decides the expected
accept/reject; accepted decorator-form functions are compiled and the `unitary` metadata on their
FuncDefn is compared with the declared flags."""
from __future__ import annotations

import itertools

LEVEL = "exploration"
LEVEL_TEXT = ("Exhaustive enumeration (thorough) / sampling (quick) of the finite product context flags x "
              "context form x callee flags x argument kind x placement, judged by the rule table of the "
              "statement; plus metadata read-back from compiled HUGR.")
LEVEL_NOTE = ("Trusted: the rule table (reject iff a qubit-passing call's flags do not include every "
              "context flag, barrier/state_result excepted; under dagger additionally loops, "
              "assignments, subscripted places). `with` forms need experimental features (enabled).")
TECHNIQUE = "exhaustive/sampled enumeration of a finite rule table against the real checker (reference-model monitor)"
RULE = ("context flags in the 7 non-empty subsets of {control,dagger,power} (plus the empty one), given "
        "by decorator or by `with` block; callee declared with each of the 8 subsets; argument kinds "
        "qubit / classical / mixed / qubit array; placements statement, if-condition, while-condition, "
        "nested argument (alone, before and after a qubit argument of the enclosing call, two levels "
        "deep), return value, assignment, subscripted argument, barrier, state_result. "
        "distinct = cells of that product")
FLOORS = {"generic_funcdefns_read": 8, "cells_checked": 300, "expected_reject": 50, "expected_accept": 50, "metadata_read": 50}

FLAGS = ["control", "dagger", "power"]
SUBSETS = [tuple(f for f, b in zip(FLAGS, bits) if b) for bits in itertools.product([0, 1], repeat=3)]
PLACEMENTS = ["stmt", "if_cond", "while_cond", "nested", "nested_after_qubit", "nested_before_qubit",
              "nested_twice", "walrus_in_cond", "walrus_in_arg", "return", "assign", "subscript", "barrier", "state_result"]
ARGKINDS = ["qubit", "classical", "mixed", "array"]
FORMS = ["decorator", "with"]

HDR = '''from guppylang import guppy
from guppylang.std.builtins import array, barrier
from guppylang.std.quantum import qubit
from guppylang.std.debug import state_result
dagger = object()
control = object()
power = object()

'''


def all_cells():
    cells = []
    for form in FORMS:
        for C in SUBSETS:
            for F in SUBSETS:
                for pl in PLACEMENTS:
                    kinds = ARGKINDS if pl == "stmt" else ["qubit"]
                    for ak in kinds:
                        cells.append((form, C, F, pl, ak))
    return cells


CELLS = all_cells()


def plan(tier, seed):
    per = 40
    # the product is small enough (~1400 cells, ~15 s) to enumerate completely in both tiers
    n = (len(CELLS) + per - 1) // per
    return {"n_cases": n, "params": {"per": per, "exhaustive": True},
            "exhaustive": True, "floors": {"evaluations": n // 2}}


def worker_init(ctx, job):
    from guppylang_internals.experimental import enable_experimental_features

    enable_experimental_features()


def kw(flags):
    return "(" + ", ".join(f"{f}=True" for f in flags) + ")" if flags else ""


def module(form, C, F, pl, ak):
    d = kw(F)
    decls = (f"@guppy.declare{d}\ndef fq(q: qubit) -> None: ...\n\n"
             f"@guppy.declare{d}\ndef fc(n: int) -> None: ...\n\n"
             f"@guppy.declare{d}\ndef fm(q: qubit, n: int) -> None: ...\n\n"
             f"@guppy.declare{d}\ndef fa(qs: array[qubit, 2]) -> None: ...\n\n"
             f"@guppy.declare{d}\ndef fb(q: qubit) -> bool: ...\n\n"
             f"@guppy.declare{d}\ndef fi(q: qubit) -> int: ...\n\n"
             # a classical consumer that is fine in every context
             "@guppy.declare(control=True, dagger=True, power=True)\ndef sink(n: int) -> None: ...\n\n"
             # fully flagged consumers of a qubit and a classical value, in both argument orders
             "@guppy.declare(control=True, dagger=True, power=True)\ndef ok_qn(q: qubit, n: int) -> None: ...\n\n"
             "@guppy.declare(control=True, dagger=True, power=True)\ndef ok_nq(n: int, q: qubit) -> None: ...\n\n"
             "@guppy.declare(control=True, dagger=True, power=True)\ndef ok_nn(n: int, m: int) -> int: ...\n\n")
    call = {"qubit": "fq(q)", "classical": "fc(n)", "mixed": "fm(q, n)", "array": "fa(qs)"}[ak]
    ret = "None"
    if pl == "stmt":
        body = [call]
    elif pl == "if_cond":
        body = ["if fb(q):", "    pass"]
    elif pl == "while_cond":
        body = ["while fb(q):", "    pass"]
    elif pl == "nested":
        body = ["sink(fi(q))"]
    elif pl == "nested_after_qubit":
        body = ["ok_qn(q, fi(d))"]
    elif pl == "nested_before_qubit":
        body = ["ok_nq(fi(d), q)"]
    elif pl == "nested_twice":
        body = ["sink(ok_nn(n, ok_nn(n, fi(q))))"]
    elif pl == "walrus_in_cond":
        # an assignment expression is an assignment (forbidden under dagger); no qubit is passed
        body = ["if (k := n + 1) > 2:", "    sink(k)"]
    elif pl == "walrus_in_arg":
        body = ["sink((k := n + 1))"]
    elif pl == "return":
        body = ["return fb(q)"]
        ret = "bool"
    elif pl == "assign":
        body = ["x = fi(q)"]
    elif pl == "subscript":
        body = ["fq(qs[0])"]
    elif pl == "barrier":
        body = ["barrier(q)"]
    else:
        body = ['state_result("t", q)']
    params = "q: qubit, c: qubit, d: qubit, n: int, qs: array[qubit, 2]"
    if form == "decorator":
        src = f"@guppy{kw(C)}\ndef test({params}) -> {ret}:\n" + "".join(f"    {l}\n" for l in body)
    else:
        if pl == "return":
            return None  # a with-block body cannot return a value
        mods = []
        for f in C:
            mods.append({"control": "control(c)", "dagger": "dagger", "power": "power(2)"}[f])
        if not mods:
            return None
        src = (f"@guppy\ndef test({params}) -> None:\n    with {', '.join(mods)}:\n"
               + "".join(f"        {l}\n" for l in body))
    return HDR + decls + src


def expected(form, C, F, pl, ak):
    """(reject?, reason)"""
    C_, F_ = set(C), set(F)
    passes_qubit = not (pl == "stmt" and ak == "classical") and not pl.startswith("walrus")
    exempt = pl in ("barrier", "state_result")
    if not C_:
        return False, "no-context"
    if "dagger" in C_:
        if pl == "while_cond":
            return True, "dagger-loop"
        if pl in ("assign", "walrus_in_cond", "walrus_in_arg"):
            return True, "dagger-assignment"
        if pl == "subscript":
            return True, "dagger-subscript"
    if exempt:
        return False, "exempt"
    if passes_qubit and not C_ <= F_:
        return True, "flags"
    return False, "ok"


META = {"n": 0}


def judge_cell(ctx, cell):
    from vf import ctx as C

    form, Cf, F, pl, ak = cell
    text = module(*cell)
    if text is None:
        return None
    rej, reason = expected(*cell)
    ld = ctx.load(text, "unit")
    got_title = None
    try:
        ld.test.check()
        got = False
    except BaseException as e:
        if C.raised_in_harness(e):
            raise
        if not C.is_guppy_error(e):
            return {"mech": "C24:checker-crash:" + C.innermost_repo_frame(e),
                    "witness": {"cell": cell, "text": text, "error": C.short_tb(e, 3)}}, reason, rej
        got = True
        got_title = str(getattr(getattr(e, "error", None), "title", type(e).__name__))
    v = None
    if got != rej:
        if rej and pl in ("if_cond", "while_cond") and reason == "flags":
            mech = "C24:call-in-branch-condition-not-checked"
        elif rej:
            mech = f"C24:not-rejected:{reason}:{pl}:{form}"
        else:
            mech = f"C24:wrongly-rejected:{pl}:{form}:{got_title}"
        v = {"mech": mech, "witness": {"cell": cell, "text": text, "expected": "reject" if rej else "accept",
                                       "observed": got_title or "accepted"}}
    elif not got and form == "decorator":
        # metadata read-back
        try:
            pkg = ld.test.compile_function()
            from hugr import ops

            h = pkg.modules[0]
            val = None
            for node in h:
                op = h[node].op
                if isinstance(op, ops.FuncDefn) and op.f_name == "test":
                    val = h[node].metadata.get("unitary")
            from guppylang_internals.tys.ty import UnitaryFlags

            want = UnitaryFlags.NoFlags
            for f in Cf:
                want |= {"control": UnitaryFlags.Control, "dagger": UnitaryFlags.Dagger,
                         "power": UnitaryFlags.Power}[f]
            META["n"] += 1
            if val != want.value:
                v = {"mech": "C24:unitary-metadata-mismatch",
                     "witness": {"cell": cell, "expected": want.value, "observed": val}}
        except BaseException as e:
            if C.raised_in_harness(e):
                raise
            v = {"mech": "C24:compile-failed-after-check:" + (
                "guppy-error" if C.is_guppy_error(e) else C.innermost_repo_frame(e)),
                "witness": {"cell": cell, "text": text, "error": C.short_tb(e, 3)}}
    return v, reason, rej


def generic_metadata_probe(ctx, flags):
    """Flagged definitions that are generic (type variable / nat variable / comptime parameter) must
    record their flags on every FuncDefn produced for them, like non-generic ones.
    -> (violations, number of FuncDefns read)"""
    from hugr import ops

    from guppylang_internals.tys.ty import UnitaryFlags

    want = UnitaryFlags.NoFlags
    for f in flags:
        want |= {"control": UnitaryFlags.Control, "dagger": UnitaryFlags.Dagger, "power": UnitaryFlags.Power}[f]
    text = (HDR + "from guppylang.std.builtins import comptime, nat\n"
            'T = guppy.type_var("T")\nnn = guppy.nat_var("nn")\n\n'
            f"@guppy{kw(flags)}\ndef gen_t(q: qubit, x: T) -> None:\n    pass\n\n"
            f"@guppy{kw(flags)}\ndef gen_n(q: qubit, xs: array[int, nn]) -> None:\n    pass\n\n"
            f"@guppy{kw(flags)}\ndef gen_c(q: qubit, k: int @comptime) -> None:\n    pass\n\n"
            "@guppy\ndef caller(q: qubit) -> None:\n    gen_t(q, 1.5)\n    gen_n(q, array(1, 2))\n    gen_c(q, 3)\n    gen_c(q, 4)\n")
    ld = ctx.load(text, "genmeta")
    pkg = ld.caller.compile_function()
    h = pkg.modules[0]
    viols, n = [], 0
    for node in h:
        op = h[node].op
        if isinstance(op, ops.FuncDefn) and op.f_name.split(".")[-1].split("$")[0].startswith(("gen_t", "gen_n", "gen_c")):
            n += 1
            val = h[node].metadata.get("unitary")
            if val != want.value:
                viols.append({"mech": "C24:unitary-metadata-mismatch:generic-definition",
                              "witness": {"function": op.f_name, "flags": list(flags), "expected": want.value,
                                          "observed": val}})
    return viols, n


def run_case(ctx, rng, idx, params, tier):
    per = params["per"]
    if params.get("exhaustive"):
        cells = CELLS[idx * per:(idx + 1) * per]
    else:
        cells = [CELLS[rng.randrange(len(CELLS))] for _ in range(per)]
    viols = []
    counters = {"cells_checked": 0, "expected_reject": 0, "expected_accept": 0, "metadata_read": 0}
    seen_cells = set()
    reasons = set()
    for cell in cells:
        r = judge_cell(ctx, cell)
        if r is None:
            continue
        v, reason, rej = r
        counters["cells_checked"] += 1
        counters["expected_reject" if rej else "expected_accept"] += 1
        seen_cells.add(repr(cell))
        reasons.add(reason)
        if v:
            viols.append(v)
    counters["metadata_read"] = META["n"]
    META["n"] = 0
    if idx < len(SUBSETS):
        gv, gn = generic_metadata_probe(ctx, SUBSETS[idx])
        viols += gv
        counters["generic_funcdefns_read"] = gn
    seen = set()
    uniq = [v for v in viols if not (v["mech"] in seen or seen.add(v["mech"]))]
    rec = {"status": "violated" if uniq else "held", "fp": f"case{idx}", "counters": counters,
           "sets": {"cells": sorted(seen_cells), "rule_reasons": sorted(reasons)}}
    if uniq:
        rec["violations"] = uniq[:12]
    if idx < 2:
        rec["sample"] = {"cell": cells[0], "module": (module(*cells[0]) or "")[-400:]}
    return rec


def replay(ctx, w):
    cell = tuple(tuple(x) if isinstance(x, list) else x for x in w["cell"])
    r = judge_cell(ctx, cell)
    if r is None:
        return {"status": "held"}
    v, _, _ = r
    return {"status": "violated" if v else "held", "violation": v}
