"""C23 — Comptime tracing leaves the user's module untouched.

Modules with every subset of user bindings for {int, float, len} define comptime functions that
succeed, raise in the body, return ill-typed values, leak qubits and call each other.  Histories of
compilations are run fault-free and with an injected exception at every line event reached inside
the tracer (tracing/function.py, unpacking.py, object.py) and inside the user's comptime body
(sys.monitoring LINE failpoints).  Oracle: the module's namespace (keys and object identities)
before the history equals the namespace after every step."""
from __future__ import annotations

import hashlib
import sys

LEVEL = "fault_enumeration"
LEVEL_TEXT = ("Enumeration of crash points: for each (binding subset, body kind) the fault-free run "
              "counts the line events reached under the tracer; then one run per crash point injects "
              "an exception at exactly that event (all points in thorough, a sample in quick) and the "
              "module namespace snapshot is compared. Plus fault-free histories of 1-6 compilations.")
LEVEL_NOTE = ("Failpoints are NOT placed on lines of mock_builtins itself: an exception in the middle of "
              "its own restore bookkeeping (plain dict operations that cannot raise) is a state the "
              "program cannot have. Trusted: sys.monitoring delivering LINE events for the listed files; "
              "snapshot = {name: id(object)} of module.__dict__.")
TECHNIQUE = "fault injection at enumerated line events (sys.monitoring failpoints) + namespace snapshot invariant"
RULE = ("8 subsets of user bindings for int/float/len (bound to the builtin itself or to another "
        "object) x body kinds {ok, raises, ill-typed return, leaked qubit, nested comptime call, uses "
        "all three builtins}; crash point n in 1..N(events reached). distinct = (subset, body kind, "
        "crash point class: tracer file or user body)")
FLOORS = {"injections_fired": 100, "snapshots_compared": 200, "distinct_crash_sites": 20}

TARGET_SUFFIXES = ("guppylang_internals/tracing/function.py", "guppylang_internals/tracing/unpacking.py",
                   "guppylang_internals/tracing/object.py", "guppylang_internals/tracing/util.py",
                   "guppylang_internals/definition/traced.py")
BODIES = {
    "ok": "def f(x: int, xs: array[int, 2]) -> int:\n    n = len(xs)\n    y = int(x) + n\n    return y\n",
    "all3": "def f(x: int, xs: array[int, 2]) -> float:\n    a = float(x)\n    b = int(a)\n    c = len(xs)\n    return float(b + c) + a\n",
    "raises": "def f(x: int, xs: array[int, 2]) -> int:\n    y = int(x)\n    raise ValueError('boom')\n",
    "interrupts": "def f(x: int, xs: array[int, 2]) -> int:\n    y = int(x) + len(xs)\n    raise KeyboardInterrupt()\n",
    "exits": "def f(x: int, xs: array[int, 2]) -> int:\n    y = float(x)\n    raise SystemExit(3)\n",
    "illtyped": "def f(x: int, xs: array[int, 2]) -> int:\n    return float(x)\n",
    "leak": "def f(x: int, xs: array[int, 2]) -> int:\n    q = qubit()\n    return int(x)\n",
    "nested": "def f(x: int, xs: array[int, 2]) -> int:\n    return helper(int(x)) + len(xs)\n",
    # a regular Guppy function with a capture-free recursive nested function, checked for the first
    # time while the comptime function is traced
    "calls_regular_with_nested_def": "def f(x: int, xs: array[int, 2]) -> int:\n    return regrec(int(x)) + len(xs)\n",
}
HELPER = ("@guppy.comptime\ndef helper(a: int) -> int:\n    return int(a) + len([1, 2, 3])\n\n"
          "@guppy\ndef regrec(k: int) -> int:\n    def fibo(m: int) -> int:\n        if m < 2:\n            return m\n"
          "        return fibo(m - 1) + fibo(m - 2)\n    return fibo(k)\n\n")


def plan(tier, seed):
    n = 96 if tier == "quick" else 8 * len(BODIES) * 4
    return {"n_cases": n, "params": {"sample": 14 if tier == "quick" else 10**6},
            "floors": {"evaluations": n // 2}}


class InjectedFault(Exception):
    pass


class InjectedInterrupt(BaseException):
    """Interrupt-like (KeyboardInterrupt, SystemExit, pytest's outcome exceptions are BaseExceptions):
    restore code written as `except Exception:` misses it."""


class FailPoints:
    """sys.monitoring LINE failpoints limited to target files."""

    def __init__(self):
        self.mon = sys.monitoring
        self.tool = 3
        self.armed_at = None
        self.count = 0
        self.user_file = None
        self.sites = []
        self.fired_site = None
        try:
            self.mon.use_tool_id(self.tool, "vf-failpoints")
        except ValueError:
            pass
        self.mon.register_callback(self.tool, self.mon.events.LINE, self.on_line)

    def target(self, filename):
        return filename.endswith(TARGET_SUFFIXES) or filename == self.user_file

    def on_line(self, code, line):
        fn = code.co_filename
        if not self.target(fn):
            return self.mon.DISABLE
        if fn == self.user_file and code.co_name == "<module>":
            return None
        self.count += 1
        site = (fn.rsplit("/", 1)[-1] if fn != self.user_file else "<user body>", code.co_name, line)
        if self.armed_at is None:
            self.sites.append(site)
        elif self.count == self.armed_at:
            self.fired_site = site
            raise (InjectedInterrupt if self.count % 3 == 0 else InjectedFault)(f"injected at {site}")
        return None

    def start(self, user_file, armed_at=None):
        self.user_file = user_file
        self.armed_at = armed_at
        self.count = 0
        self.sites = []
        self.fired_site = None
        self.mon.restart_events()
        self.mon.set_events(self.tool, self.mon.events.LINE)

    def stop(self):
        self.mon.set_events(self.tool, 0)


FP = None


def worker_init(ctx, job):
    global FP
    FP = FailPoints()


def module_text(subset, kind):
    lines = ["from guppylang import guppy", "from guppylang.std.builtins import array, owned",
             "from guppylang.std.quantum import qubit", "import builtins as _b", ""]
    binds = {"int": ["int = _b.int", "class int(_b.int):\n    pass"],
             "float": ["float = _b.float", "float = _b.float"],
             "len": ["len = _b.len", "def len(x):\n    return _b.len(x)"]}
    for name, how in subset:
        lines.append(binds[name][how])
    lines.append("")
    return "\n".join(lines) + "\n" + HELPER + "@guppy.comptime\n" + BODIES[kind]


def snapshot(mod):
    return {k: id(v) for k, v in mod.__dict__.items()}


def diff(a, b):
    out = []
    for k in sorted(set(a) | set(b)):
        if k not in b:
            out.append(f"removed {k}")
        elif k not in a:
            out.append(f"added {k}")
        elif a[k] != b[k]:
            out.append(f"rebound {k}")
    return out


def compile_once(ld, name="f"):
    from vf import ctx as C

    try:
        getattr(ld.module, name).compile_function()
        return "ok"
    except (InjectedFault, InjectedInterrupt):
        return "injected"
    except BaseException as e:
        if C.raised_in_harness(e):
            raise
        return "guppy-error" if C.is_guppy_error(e) else f"exception:{type(e).__name__}"


def all_subsets():
    names = ["int", "float", "len"]
    out = []
    for mask in range(8):
        sub = [n for i, n in enumerate(names) if mask >> i & 1]
        out.append(sub)
    return out


def run_case(ctx, rng, idx, params, tier):
    subsets = all_subsets()
    kinds = list(BODIES)
    sub = subsets[idx % 8]
    kind = kinds[(idx // 8) % len(kinds)]
    how = (idx // (8 * len(kinds))) % 2
    subset = [(n, how if n != "float" else 0) for n in sub]
    text = module_text(subset, kind)
    viols = []
    counters = {"injections_fired": 0, "snapshots_compared": 0, "fault_free_runs": 0,
                "injections_not_reached": 0}
    sites_seen = set()
    # fault-free run with event counting
    ld = ctx.load(text, "comptime")
    before = snapshot(ld.module)
    FP.start(str(ld.path), None)
    try:
        outcome0 = compile_once(ld)
    finally:
        FP.stop()
    n_events = FP.count
    sites = list(FP.sites)
    counters["fault_free_runs"] += 1
    counters["snapshots_compared"] += 1
    d = diff(before, snapshot(ld.module))
    if d:
        viols.append({"mech": f"C23:namespace-changed:fault-free:{kind}:{d[0].split()[0]}",
                      "witness": {"text": text, "diff": d, "outcome": outcome0}})
    # history: compile helper and f several times in one session
    for step in range(rng.randint(1, 5)):
        name = rng.choice(["f", "helper", "f"])
        compile_once(ld, name)
        counters["snapshots_compared"] += 1
        d = diff(before, snapshot(ld.module))
        if d:
            viols.append({"mech": f"C23:namespace-changed:history:{kind}:{d[0].split()[0]}",
                          "witness": {"text": text, "diff": d, "step": step, "compiled": name}})
            break
    # injected runs
    points = list(range(1, n_events + 1))
    if len(points) > params["sample"]:
        points = sorted(rng.sample(points, params["sample"]))
    for n in points:
        ld2 = ctx.load(text, "comptime_inj")
        b2 = snapshot(ld2.module)
        FP.start(str(ld2.path), n)
        try:
            out = compile_once(ld2)
        finally:
            FP.stop()
        if FP.fired_site is None:
            counters["injections_not_reached"] += 1
            continue
        counters["injections_fired"] += 1
        sites_seen.add(f"{FP.fired_site[0]}:{FP.fired_site[1]}")
        counters["snapshots_compared"] += 1
        d = diff(b2, snapshot(ld2.module))
        if d:
            viols.append({"mech": f"C23:namespace-changed:after-fault:{d[0]}",
                          "witness": {"text": text, "diff": d, "crash_point": n, "site": FP.fired_site,
                                      "outcome": out}})
        # the session must still work: compile the helper afterwards and compare again
        compile_once(ld2, "helper")
        counters["snapshots_compared"] += 1
        d = diff(b2, snapshot(ld2.module))
        if d:
            viols.append({"mech": f"C23:namespace-changed:after-fault-then-compile:{d[0]}",
                          "witness": {"text": text, "diff": d, "crash_point": n, "site": FP.fired_site}})
    seen = set()
    uniq = [v for v in viols if not (v["mech"] in seen or seen.add(v["mech"]))]
    rec = {"status": "violated" if uniq else "held",
           "fp": hashlib.sha1(repr((subset, kind)).encode()).hexdigest()[:16],
           "counters": counters,
           "sets": {"distinct_crash_sites": sorted(sites_seen), "fault_free_outcomes": [f"{kind}:{outcome0}"]}}
    if uniq:
        rec["violations"] = uniq[:8]
    if idx < 2:
        rec["sample"] = {"module": text, "events_in_fault_free_run": n_events, "first_sites": sites[:5]}
    return rec


def replay(ctx, w):
    global FP
    if FP is None:
        FP = FailPoints()
    text = w["text"]
    ld = ctx.load(text, "replay")
    b = snapshot(ld.module)
    n = w.get("crash_point")
    FP.start(str(ld.path), n)
    try:
        compile_once(ld)
    finally:
        FP.stop()
    d = diff(b, snapshot(ld.module))
    return {"status": "violated" if d else "held", "diff": d}
