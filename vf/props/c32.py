"""C32 — Accepted syntax is never silently ignored.

A catalogue of Python statement / expression node kinds and optional clauses (while-else,
for-else, try, with, keyword arguments, decorators and defaults of nested functions, multiple
assignment targets, del, assert, global, comprehensions, slices, `is`/`in`, f-strings, ...) is
planted one at a time in a template function where executing vs ignoring the construct changes the
reported results.  Oracle: /repo either rejects with a Guppy error, or accepts and the emulator's
result stream equals CPython's for the same source."""
from __future__ import annotations

import ast

from vf.gen import opy

LEVEL = "exploration"
LEVEL_TEXT = ("Exhaustive over a hand-enumerated catalogue of ~110 (node kind / optional clause, "
              "placement) plants derived from the ast grammar: for each, reject-or-agree is decided by "
              "differential execution against CPython. Complete for the catalogue, nothing beyond it.")
LEVEL_NOTE = ("Trusted: CPython as reference (O-py); when CPython itself raises for the planted source "
              "the construct 'takes effect' by raising, so /repo must reject it or panic, not run to "
              "completion. Catalogue coverage of the ast grammar is checked in evidence "
              "(stmt/expr classes never planted are listed).")
TECHNIQUE = "catalogue enumeration with differential execution against CPython (reject-or-agree monitor)"
RULE = ("one plant per case from the catalogue in vf/props/c32.py (PLANTS); template reports a value "
        "that depends on the plant taking effect. distinct = plants; non-trivial = all (each is a "
        "different construct)")
FLOORS = {"plants_judged": 60, "accepted_and_compared": 15, "rejected": 25}

HDR = '''from guppylang import guppy
from guppylang.std.builtins import result, array, owned, panic, comptime

def deco(f):
    def wrapped(a):
        return f(a) + 100
    return wrapped

@guppy
def helper(a: int, b: int) -> int:
    return a * 10 + b

@guppy.struct
class PK:
    a: int
    b: int

    @guppy
    def add(self: "PK", k: int) -> int:
        return self.a + self.b + k

'''

# (name, body lines of main) — body must `result(...)` something that depends on the plant
PLANTS = [
    ("while_else", "x = 0\nwhile x < 3:\n    x += 1\nelse:\n    result('else', 1)\nresult('x', x)"),
    ("while_else_break", "x = 0\nwhile x < 3:\n    x += 1\n    if x == 2:\n        break\nelse:\n    result('else', 1)\nresult('x', x)"),
    ("for_else", "x = 0\nfor i in range(3):\n    x += i\nelse:\n    result('else', 1)\nresult('x', x)"),
    ("for_else_array", "x = 0\nfor e in array(1, 2):\n    x += e\nelse:\n    x += 100\nresult('x', x)"),
    ("try_except", "x = 1\ntry:\n    x = 2\nexcept Exception:\n    x = 3\nresult('x', x)"),
    ("try_finally", "x = 1\ntry:\n    x = 2\nfinally:\n    x += 10\nresult('x', x)"),
    ("try_else", "x = 1\ntry:\n    x = 2\nexcept Exception:\n    x = 3\nelse:\n    x += 20\nresult('x', x)"),
    ("with_stmt", "x = 1\nwith helper(1, 2) as y:\n    x = 2\nresult('x', x)"),
    ("assert_false", "x = 1\nassert x == 2\nresult('x', x)"),
    ("assert_msg", "x = 1\nassert x == 2, 'no'\nresult('x', x)"),
    ("del_name", "x = 1\ny = 2\ndel x\nresult('x', x + y)"),
    ("del_subscript", "xs = array(1, 2, 3)\ndel xs[0]\nresult('x', xs[0])"),
    ("global_stmt", "global zz\nzz = 5\nresult('x', zz)"),
    ("nonlocal_in_nested", "x = 1\ndef inner() -> None:\n    nonlocal x\n    x = 5\ninner()\nresult('x', x)"),
    ("raise_stmt", "x = 1\nraise ValueError()\nresult('x', x)"),
    ("import_stmt", "import math\nresult('x', int(math.floor(2.5)))"),
    ("importfrom_stmt", "from math import floor\nresult('x', int(floor(2.5)))"),
    ("classdef", "class K:\n    v = 7\nresult('x', K.v)"),
    ("asyncdef", "async def inner() -> int:\n    return 1\nresult('x', 1)"),
    ("match_stmt", "x = 2\nmatch x:\n    case 2:\n        x = 50\n    case _:\n        x = 60\nresult('x', x)"),
    ("multi_target_assign", "a = b = 5\nresult('x', a + b)"),
    ("multi_target_distinct", "a = b = helper(1, 2)\nb += 1\nresult('x', a * 100 + b)"),
    ("annassign_no_value", "y: int\ny = 3\nresult('x', y)"),
    ("annassign_no_value_use", "x = 1\ny: int\nresult('x', y)"),
    ("annassign_coerce", "y: float = 3\nresult('x', y)"),
    ("augassign_pow", "x = 3\nx **= 2\nresult('x', x)"),
    ("augassign_matmul", "x = 3\nx @= 2\nresult('x', x)"),
    ("augassign_floordiv", "x = 7\nx //= 2\nresult('x', x)"),
    ("augassign_shift", "x = 7\nx <<= 2\nx >>= 1\nresult('x', x)"),
    ("augassign_attr_struct", "t = (1, 2)\nt += (3,)\nresult('x', len(t))"),
    ("tuple_swap", "a = 1\nb = 2\na, b = b, a\nresult('x', a * 10 + b)"),
    ("starred_assign", "a, *r = 1, 2, 3\nresult('x', a + r[0] + r[1])"),
    ("nested_unpack", "(a, b), c = (1, 2), 3\nresult('x', a * 100 + b * 10 + c)"),
    ("call_keyword", "result('x', helper(a=1, b=2))"),
    ("call_keyword_reordered", "result('x', helper(b=1, a=2))"),
    ("call_keyword_mixed", "result('x', helper(1, b=2))"),
    ("call_starargs", "t = (1, 2)\nresult('x', helper(*t))"),
    ("call_kwargs", "result('x', helper(**{'a': 1, 'b': 2}))"),
    ("result_keyword", "result(tag='x', value=3)"),
    # keyword arguments on calls in *checking* position (known target type) and on special forms
    ("call_keyword_annassign", "x: int = pow(2, 10, mod=7)\nresult('x', x)"),
    ("call_keyword_return", "def inner() -> int:\n    return pow(3, 4, mod=5)\nresult('x', inner())"),
    ("call_keyword_as_argument", "result('x', helper(pow(2, 10, mod=7), 1))"),
    ("call_keyword_user_checkpos", "x: int = helper(1, 2, b=3)\nresult('x', x)"),
    ("comptime_keyword", "result('x', comptime(3, foo=4))"),
    ("comptime_keyword_only", "result('x', comptime(x=3))"),
    ("array_keyword", "xs = array(1, 2, n=3)\nresult('x', len(xs))"),
    ("range_keyword", "x = 0\nfor i in range(3, step=2):\n    x += 1\nresult('x', x)"),
    ("len_keyword", "xs = array(1, 2)\nresult('x', len(xs, foo=1))"),
    ("panic_keyword", "x = 1\nif x == 2:\n    panic('m', x=1)\nresult('x', x)"),
    ("int_keyword", "result('x', int(2.5, base=10))"),
    ("struct_ctor_keyword", "p = PK(a=1, b=2)\nresult('x', p.a * 10 + p.b)"),
    ("struct_ctor_keyword_swapped", "p = PK(b=1, a=2)\nresult('x', p.a * 10 + p.b)"),
    ("method_call_keyword", "p = PK(1, 2)\nresult('x', p.add(k=5))"),
    ("nested_call_keyword_checkpos", "def inner(a: int, b: int) -> int:\n    return a * 10 + b\nx: int = inner(1, b=2)\nresult('x', x)"),
    # long comparison chains: every link counts
    ("chain3_false_last", "result('x', 1 < 2 < 3 < 0)"),
    ("chain3_calls", "result('x', 0 < helper(0, 1) < helper(0, 2) < helper(0, 1))"),
    ("chain4_mixed", "x = 5\nresult('x', 1 <= x != 7 > 2 >= 9)"),
    ("chain3_undefined_last", "result('x', 1 < 2 < 3 < zz_undefined)"),
    ("chain3_in_if", "x = 0\nif 1 < 2 < 3 < 0:\n    x = 1\nresult('x', x)"),
    # expression statements that are a bare name: unbound / maybe-unbound / consumed names must not pass
    ("bare_name_unbound", "zz_nothing\nresult('x', 1)"),
    ("bare_name_maybe_unbound", "c = helper(0, 0) > 5\nif c:\n    y = 1\ny\nresult('x', 1)"),
    ("bare_name_bound_later", "y\ny = 2\nresult('x', y)"),
    ("bare_name_bound", "y = 3\ny\nresult('x', y)"),
    ("nested_decorator", "@deco\ndef inner(a: int) -> int:\n    return a + 1\nresult('x', inner(1))"),
    ("nested_default", "def inner(a: int = 5) -> int:\n    return a + 1\nresult('x', inner())"),
    ("nested_default_given", "def inner(a: int = 5) -> int:\n    return a + 1\nresult('x', inner(2))"),
    ("nested_kwonly", "def inner(*, a: int) -> int:\n    return a + 1\nresult('x', inner(a=2))"),
    ("nested_vararg", "def inner(*a: int) -> int:\n    return 7\nresult('x', inner(1, 2))"),
    ("nested_kwarg", "def inner(**a: int) -> int:\n    return 7\nresult('x', inner(k=1))"),
    ("nested_posonly", "def inner(a: int, /, b: int) -> int:\n    return a * 10 + b\nresult('x', inner(1, 2))"),
    ("nested_no_return_annotation", "def inner(a: int):\n    return a + 1\nresult('x', inner(1))"),
    ("nested_generator", "def inner(a: int) -> int:\n    yield a\nresult('x', 1)"),
    ("nested_redefine", "def inner(a: int) -> int:\n    return a + 1\ndef inner(a: int) -> int:\n    return a + 2\nresult('x', inner(1))"),
    ("lambda_expr", "f = lambda a: a + 1\nresult('x', f(1))"),
    ("dict_literal", "d = {1: 2}\nresult('x', d[1])"),
    ("set_literal", "s = {1, 2}\nresult('x', len(s))"),
    ("list_literal", "l = [1, 2, 3]\nresult('x', len(l))"),
    ("list_comp", "l = [i * 2 for i in range(3)]\nresult('x', l[2])"),
    ("set_comp", "s = {i for i in range(3)}\nresult('x', len(s))"),
    ("dict_comp", "d = {i: i for i in range(3)}\nresult('x', d[2])"),
    ("gen_exp_sum", "result('x', sum(i for i in range(4)))"),
    ("array_comp_if", "xs = array(i for i in range(4) if i % 2 == 0)\nresult('x', len(xs))"),
    ("array_comp_nested", "xs = array(i + j for i in range(2) for j in range(2))\nresult('x', xs[3])"),
    ("fstring", "x = 12\ns = f'{x}'\nresult('x', len(s))"),
    ("string_concat", "s = 'ab' + 'c'\nresult('x', len(s))"),
    ("bytes_literal", "s = b'abc'\nresult('x', len(s))"),
    ("ellipsis", "x = ...\nresult('x', 1)"),
    ("complex_literal", "x = 1j\nresult('x', 1)"),
    ("none_literal_use", "x = None\nresult('x', 1 if x is None else 2)"),
    ("is_compare", "x = 1\nresult('x', 1 if x is x else 2)"),
    ("isnot_compare", "x = 1\ny = 2\nresult('x', 1 if x is not y else 2)"),
    ("in_compare", "result('x', 1 if 2 in (1, 2) else 0)"),
    ("notin_compare", "xs = array(1, 2)\nresult('x', 1 if 3 not in xs else 0)"),
    ("slice_subscript", "xs = array(1, 2, 3)\nys = xs[0:2]\nresult('x', len(ys))"),
    ("slice_step", "xs = array(1, 2, 3, 4)\nys = xs[::2]\nresult('x', len(ys))"),
    ("tuple_slice", "t = (1, 2, 3)\nresult('x', len(t[1:]))"),
    ("attribute_on_int", "x = 5\nresult('x', x.bit_length())"),
    ("attribute_real", "x = 5\nresult('x', x.real)"),
    ("ifexp", "x = 1\nresult('x', 10 if x == 1 else 20)"),
    ("walrus_in_call", "result('x', helper((y := 3), y))"),
    ("chained_compare", "x = 2\nresult('x', 1 < x < 3)"),
    ("not_op", "x = 0\nresult('x', not x)"),
    ("boolop_value", "x = 0\ny = 5\nresult('x', x or y)"),
    ("boolop_and_value", "x = 2\ny = 5\nresult('x', x and y)"),
    ("unary_plus", "x = 3\nresult('x', +x)"),
    ("invert", "x = 3\nresult('x', ~x)"),
    ("matmul", "x = 3\nresult('x', x @ 2)"),
    ("pow_op", "x = 3\nresult('x', x ** 2)"),
    ("floordiv_mod", "x = 7\nresult('x', (x // 2) * 10 + x % 2)"),
    ("true_div", "x = 7\nresult('x', x / 2)"),
    ("int_float_mix", "x = 7\nresult('x', x + 0.5)"),
    ("star_expr_tuple", "t = (2, 3)\nu = (1, *t)\nresult('x', len(u))"),
    ("star_expr_array", "xs = array(2, 3)\nys = array(1, *xs)\nresult('x', len(ys))"),
    ("subscript_tuple_index", "d = array(array(1, 2), array(3, 4))\nresult('x', d[1, 0])"),
    ("pass_stmt", "x = 1\npass\nresult('x', x)"),
    ("docstring_expr", "x = 1\n'just a string'\nresult('x', x)"),
    ("expr_stmt_call", "x = 1\nhelper(1, 2)\nresult('x', x)"),
    ("return_value_in_loop", "for i in range(3):\n    if i == 1:\n        result('x', i)\n        return\nresult('x', 9)"),
    ("continue_stmt", "x = 0\nfor i in range(4):\n    if i % 2 == 0:\n        continue\n    x += i\nresult('x', x)"),
    ("break_stmt", "x = 0\nfor i in range(4):\n    if i == 2:\n        break\n    x += 1\nresult('x', x)"),
    ("while_true_break", "x = 0\nwhile True:\n    x += 1\n    if x > 2:\n        break\nresult('x', x)"),
    ("if_elif_else", "x = 2\nif x == 1:\n    y = 1\nelif x == 2:\n    y = 2\nelse:\n    y = 3\nresult('x', y)"),
    ("for_tuple_target", "x = 0\nfor a, b in array((1, 2), (3, 4)):\n    x += a * b\nresult('x', x)"),
    ("for_enumerate", "x = 0\nfor i, e in enumerate(array(5, 6)):\n    x += i * e\nresult('x', x)"),
    ("for_zip", "x = 0\nfor a, b in zip(array(1, 2), array(3, 4)):\n    x += a * b\nresult('x', x)"),
    ("for_reversed", "x = 0\nfor e in reversed(array(1, 2, 3)):\n    x = x * 10 + e\nresult('x', x)"),
    ("min_max_builtin", "result('x', max(1, 5) * 10 + min(3, 2))"),
    ("abs_round", "result('x', abs(-3) * 10 + round(2.6))"),
    ("divmod_builtin", "q, r = divmod(7, 2)\nresult('x', q * 10 + r)"),
    ("print_builtin", "print(1)\nresult('x', 1)"),
    ("isinstance_builtin", "x = 1\nresult('x', 1 if isinstance(x, int) else 0)"),
    ("type_alias_stmt", "type K = int\nresult('x', 1)"),
    ("await_expr", "x = await helper(1, 2)\nresult('x', x)"),
    ("yield_expr", "x = yield 1\nresult('x', 1)"),
    ("async_for", "async for i in range(3):\n    pass\nresult('x', 1)"),
    ("async_with", "async with helper(1, 2) as y:\n    pass\nresult('x', 1)"),
    ("return_in_none_fn_value", "result('x', 1)\nreturn 5"),
    ("semicolon_two_stmts", "x = 1; x += 1\nresult('x', x)"),
    ("nested_function_capture_default", "y = 4\ndef inner(a: int) -> int:\n    return a + 1\nresult('x', inner(y))"),
    ("conditional_def", "c = True\nif c:\n    def inner(a: int) -> int:\n        return a + 1\nelse:\n    def inner(a: int) -> int:\n        return a + 2\nresult('x', inner(1))"),
]


# plants whose deviation is one known mechanism
MECH = {"boolop_value": "C32:and-or-of-non-bool-operands-evaluates-to-bool",
        "boolop_and_value": "C32:and-or-of-non-bool-operands-evaluates-to-bool"}


def plan(tier, seed):
    return {"n_cases": len(PLANTS), "exhaustive": True, "floors": {"evaluations": len(PLANTS) // 3}}


def module_text(body):
    return HDR + "@guppy\ndef main() -> None:\n" + "".join("    " + l + "\n" for l in body.split("\n"))


def run_python(text):
    """('ok', stream) | ('raises', exception type name) | ('syntax', msg)"""
    try:
        ast.parse(text)
    except SyntaxError as e:
        return ("syntax", str(e))
    try:
        stream, panic = opy.run_source(text, strict_signed=False, exact_floats=False)
        if panic is not None:
            return ("raises", "Panic")
        return ("ok", stream)
    except opy.OutOfDomain as e:
        return ("raises", "OutOfDomain:" + str(e))
    except BaseException as e:
        return ("raises", type(e).__name__)


def judge_plant(ctx, name, body):
    from vf import ctx as C

    text = module_text(body)
    py = run_python(text)
    counters = {"plants_judged": 1}
    if py[0] == "syntax":
        return {"status": "discard", "fp": None, "detail": f"python syntax error for {name}: {py[1]}",
                "counters": {"python_syntax_error": 1}}
    try:
        ld = ctx.load(text, "plant")
        pkg = ld.main.compile()
    except BaseException as e:
        if C.raised_in_harness(e):
            raise
        if C.is_guppy_error(e):
            counters["rejected"] = 1
            title = str(getattr(getattr(e, "error", None), "title", type(e).__name__))
            return {"status": "held", "fp": name, "counters": counters,
                    "sets": {"outcomes": [f"{name}: rejected ({title})"]}}
        if isinstance(e, (SyntaxError,)):
            return {"status": "discard", "fp": None, "detail": "python rejects the module", "counters": {}}
        if _in_user_module(e, text):
            # Python itself failed while executing the module (before/outside guppy)
            return {"status": "discard", "fp": None, "detail": f"python-level {type(e).__name__}",
                    "counters": {"python_level_error": 1}}
        return {"status": "violated", "fp": name, "mech": f"C32:crash:{name}:" + C.innermost_repo_frame(e),
                "witness": {"plant": name, "text": text, "error": C.short_tb(e, 4)}, "counters": counters}
    out = ctx.emulate(pkg)
    got = [(t, opy.norm_value(v)) for t, v in out.stream()]
    counters["accepted_and_compared"] = 1
    rec = {"fp": name, "counters": counters}
    if py[0] == "raises":
        if out.panic is not None:
            rec["status"] = "held"
            rec["sets"] = {"outcomes": [f"{name}: accepted, panics like python raises"]}
            return rec
        rec["status"] = "violated"
        rec["mech"] = f"C32:accepted-but-python-raises:{name}"
        rec["witness"] = {"plant": name, "text": text, "python": py[1], "observed": got}
        return rec
    exp = py[1]
    if got == exp and out.panic is None:
        rec["status"] = "held"
        rec["sets"] = {"outcomes": [f"{name}: accepted, agrees with python"]}
    else:
        rec["status"] = "violated"
        rec["mech"] = MECH.get(name, f"C32:silently-differs:{name}")
        rec["witness"] = {"plant": name, "text": text, "expected": exp, "observed": got, "panic": out.panic}
    return rec


def _in_user_module(e, text):
    tb = e.__traceback__
    last = None
    while tb is not None:
        last = tb.tb_frame.f_code.co_filename
        tb = tb.tb_next
    return last is not None and "vfcase_" in last


def run_case(ctx, rng, idx, params, tier):
    name, body = PLANTS[idx]
    rec = judge_plant(ctx, name, body)
    if idx < 2:
        rec["sample"] = {"plant": name, "body": body}
    return rec


def extra_coverage(counters, sets):
    planted = set()
    for _, body in PLANTS:
        try:
            for n in ast.walk(ast.parse(module_text(body))):
                planted.add(type(n).__name__)
        except SyntaxError:
            pass
    all_nodes = {c.__name__ for c in ast.stmt.__subclasses__()} | {c.__name__ for c in ast.expr.__subclasses__()}
    return {"ast_node_kinds_planted": len(planted & all_nodes),
            "ast_node_kinds_never_planted": sorted(all_nodes - planted)}


def replay(ctx, w):
    for name, body in PLANTS:
        if name == w["plant"]:
            return judge_plant(ctx, name, body)
    return {"status": "held", "note": "plant no longer in catalogue"}
