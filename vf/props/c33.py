"""C33 — Experimental features are gated and the gate state is restored.

Histories over {enable() call, disable() call, `with enable():`, `with disable():`, nesting, bodies
that raise (plain exception or a failing check() inside the block)} interleaved with check() of
four probe programs (list literal, function tensor, capturing closure, modifier block).  Oracle: a
stack model of the flag; after every step the real module flag must equal the model, and each probe
must be rejected with the gating error exactly when the model flag is off."""
from __future__ import annotations

import hashlib

LEVEL = "fault_enumeration"
LEVEL_TEXT = ("Enumeration of enable/disable histories (all histories up to depth 3 with every "
              "exceptional-exit placement in thorough, sampled in quick) executed against the real "
              "context managers and the real checker, compared step by step with a stack model of the "
              "gate; exceptional exits are exceptions raised by the with-body, including a failing "
              "check() inside it.")
LEVEL_NOTE = ("Trusted: the stack model (properly nested uses only, as the quantifier says); a plain "
              "call without `with` is a permanent set; exceptions are injected in the with *body*, not "
              "inside __exit__ itself.")
TECHNIQUE = "history enumeration with fault injection in with-bodies, checked online against a stack model of the gate"
RULE = ("history = tree of steps: call_enable | call_disable | with_enable(body, raises?) | "
        "with_disable(body, raises?) | probe(k) with k in 11 probe programs (one per site that consults the gate: lists as literal / checked literal / comprehension / annotation, function tensors in checking / synthesis / statement position, capturing closures (also nested twice), modifier blocks); depth <= 4, "
        "<= 8 steps; raising bodies raise after their steps (plain exception) or through a failing "
        "probe check. distinct = distinct history trees; non-trivial = contains a with-block")
FLOORS = {"steps_checked": 200, "probes_checked": 100, "exceptional_exits": 10}

PROBES = {
    "list": ("from guppylang import guppy\n\n@guppy\ndef main() -> int:\n    xs = [1, 2, 3]\n    return xs[0]\n",
             "Lists"),
    "tensor": ("from guppylang import guppy\nfrom collections.abc import Callable\n\n"
               "@guppy\ndef f(x: int) -> int:\n    return x\n\n@guppy\ndef g(x: bool) -> bool:\n    return x\n\n"
               "@guppy\ndef main() -> tuple[int, bool]:\n    return (f, g)(1, True)\n", "Function tensors"),
    "closure": ("from guppylang import guppy\n\n@guppy\ndef main(x: int) -> int:\n"
                "    def inner(y: int) -> int:\n        return x + y\n    return inner(1)\n",
                "Capturing closures"),
    # one probe per site that consults the gate: list literal in checking position, list
    # comprehension, list type annotation, function tensor in synthesis position
    "list_checked": ("from guppylang import guppy\n\n@guppy\ndef main() -> int:\n    xs: list[int] = [1, 2, 3]\n"
                     "    return xs[0]\n", "Lists"),
    "list_comp": ("from guppylang import guppy\n\n@guppy\ndef main() -> int:\n"
                  "    xs = [i + 1 for i in range(3)]\n    return xs[0]\n", "Lists"),
    "list_annotation": ("from guppylang import guppy\n\n@guppy\ndef main(xs: list[int]) -> int:\n"
                        "    return xs[0]\n", "Lists"),
    "tensor_synth": ("from guppylang import guppy\n\n"
                     "@guppy\ndef f(x: int) -> int:\n    return x\n\n@guppy\ndef g(x: bool) -> bool:\n    return x\n\n"
                     "@guppy\ndef main() -> int:\n    a, b = (f, g)(1, True)\n    return a\n", "Function tensors"),
    "tensor_stmt": ("from guppylang import guppy\n\n"
                    "@guppy\ndef f(x: int) -> int:\n    return x\n\n@guppy\ndef g(x: bool) -> bool:\n    return x\n\n"
                    "@guppy\ndef main() -> None:\n    (f, g)(1, True)\n", "Function tensors"),
    "closure_nested2": ("from guppylang import guppy\n\n@guppy\ndef main(x: int) -> int:\n"
                        "    def outer(y: int) -> int:\n        def inner(z: int) -> int:\n            return y + z\n"
                        "        return inner(1)\n    return outer(x)\n", "Capturing closures"),
    "modifier_control": ("from guppylang import guppy\nfrom guppylang.std.quantum import qubit, h\n"
                         "control = object()\n\n@guppy\ndef main(q: qubit, c: qubit) -> None:\n"
                         "    with control(c):\n        h(q)\n", "Modifiers"),
    "modifier": ("from guppylang import guppy\nfrom guppylang.std.quantum import qubit, h\n"
                 "dagger = object()\n\n@guppy\ndef main(q: qubit) -> None:\n    with dagger:\n        h(q)\n",
                 "Modifiers"),
}


def plan(tier, seed):
    n = 1600 if tier == "quick" else 24000
    return {"n_cases": n, "floors": {"evaluations": n // 2}}


class Boom(Exception):
    pass


def gen_history(rng, depth=0, budget=None):
    budget = budget if budget is not None else [rng.randint(3, 8)]
    steps = []
    n = rng.randint(1, 3)
    for _ in range(n):
        if budget[0] <= 0:
            break
        budget[0] -= 1
        c = rng.random()
        if c < 0.35:
            steps.append(("probe", rng.choice(list(PROBES))))
        elif c < 0.45:
            steps.append(("call_enable",))
        elif c < 0.55:
            steps.append(("call_disable",))
        elif depth < 4:
            kind = rng.choice(["with_enable", "with_disable"])
            body = gen_history(rng, depth + 1, budget)
            raises = rng.choice([None, None, "plain", "failing_probe"])
            steps.append((kind, tuple(body), raises))
        else:
            steps.append(("probe", rng.choice(list(PROBES))))
    return steps


class Runner:
    def __init__(self, ctx):
        self.ctx = ctx
        self.viols = []
        self.counters = {"steps_checked": 0, "probes_checked": 0, "exceptional_exits": 0}
        self.loaded = {}

    def flag(self):
        import guppylang_internals.experimental as ex

        return ex.EXPERIMENTAL_FEATURES_ENABLED

    def probe(self, k, model, path):
        from vf import ctx as C

        text, thing = PROBES[k]
        ld = self.ctx.load(text, "probe_" + k)
        self.counters["probes_checked"] += 1
        err = None
        try:
            ld.main.check()
        except BaseException as e:
            if C.raised_in_harness(e):
                raise
            err = e
        gated = False
        if err is not None:
            if not C.is_guppy_error(err):
                self.viols.append({"mech": "C33:probe-crash:" + C.innermost_repo_frame(err),
                                   "witness": {"probe": k, "path": path}})
                return err
            diag = getattr(err, "error", None)
            msg = (str(getattr(diag, "rendered_title", "")) + " " + str(getattr(diag, "rendered_span_label", "")))
            gated = thing.lower() in msg.lower() or "experimental" in msg.lower()
        if model and err is not None and gated:
            self.viols.append({"mech": f"C33:feature-rejected-while-enabled:{k}",
                               "witness": {"probe": k, "path": path, "flag": self.flag()}})
        if not model and not gated:
            self.viols.append({"mech": f"C33:feature-not-gated-while-disabled:{k}",
                               "witness": {"probe": k, "path": path, "flag": self.flag(),
                                           "outcome": "accepted" if err is None else str(err)[:200]}})
        return err

    def run(self, steps, model, path):
        """Executes steps; returns the model flag afterwards."""
        import guppylang_internals.experimental as ex

        for i, s in enumerate(steps):
            p = path + [i]
            k = s[0]
            if k == "probe":
                self.probe(s[1], model, p)
            elif k == "call_enable":
                ex.enable_experimental_features()
                model = True
            elif k == "call_disable":
                ex.disable_experimental_features()
                model = False
            else:
                mgr = ex.enable_experimental_features if k == "with_enable" else ex.disable_experimental_features
                saved = model
                inner = (k == "with_enable")
                try:
                    with mgr():
                        after_body = self.run(list(s[1]), inner, p)
                        # state inside the block at its end
                        self.check_flag(after_body, p + ["end-of-body"])
                        if s[2] == "plain":
                            self.counters["exceptional_exits"] += 1
                            raise Boom()
                        if s[2] == "failing_probe":
                            # a check() that fails inside the block: pick a probe gated off right now,
                            # or an ill-typed program when the gate is on
                            self.counters["exceptional_exits"] += 1
                            if not after_body:
                                e = self.probe("list", after_body, p + ["failing"])
                                if e is not None:
                                    raise e
                            raise Boom()
                except Boom:
                    pass
                except BaseException as e:
                    from vf import ctx as C

                    if not C.is_guppy_error(e):
                        raise
                model = saved
            self.counters["steps_checked"] += 1
            self.check_flag(model, p)
        return model

    def check_flag(self, model, path):
        if self.flag() != model:
            self.viols.append({"mech": "C33:gate-state-differs-from-stack-model",
                               "witness": {"path": path, "model": model, "actual": self.flag()}})


def run_history(ctx, hist):
    import guppylang_internals.experimental as ex

    ex.EXPERIMENTAL_FEATURES_ENABLED = False
    r = Runner(ctx)
    try:
        r.run(hist, False, [])
    finally:
        ex.EXPERIMENTAL_FEATURES_ENABLED = False
    return r


def has_with(steps):
    return any(s[0].startswith("with") for s in steps)


def run_case(ctx, rng, idx, params, tier):
    hist = gen_history(rng)
    r = run_history(ctx, hist)
    seen = set()
    uniq = [v for v in r.viols if not (v["mech"] in seen or seen.add(v["mech"]))]
    for v in uniq:
        v["witness"]["history"] = repr(hist)
    rec = {"status": "violated" if uniq else "held",
           "fp": hashlib.sha1(repr(hist).encode()).hexdigest()[:16] if has_with(hist) else None,
           "counters": r.counters}
    if uniq:
        rec["violations"] = uniq
    if idx < 3:
        rec["sample"] = {"history": repr(hist)}
    return rec


def replay(ctx, w):
    import ast

    hist = ast.literal_eval(w["history"])
    r = run_history(ctx, hist)
    return {"status": "violated" if r.viols else "held", "violations": r.viols[:3]}
