"""Shared type generator for C12/C13/C14/C31: types are generated in an own term representation
(nested tuples), converted to /repo's Type objects, and converted back for comparison — so the
oracles (Robinson unification, structural copy/drop, structural equality) never touch /repo's
algorithms.

Terms:
  ("var", i)  existential type var      ("cvar", i) existential nat const var
  ("bvar", i, copy, drop) bound type var  ("bcvar", i) bound nat const var
  ("nat",) ("int",) ("float",) ("bool",) ("none",) ("str",) ("qubit",)
  ("tuple", (t...))   ("fn", ((t, flag)...), out)   flag in "", "owned", "inout"
  ("array", t, c) ("farray", t, c) ("option", t) ("list", t)   c = ("k", n) | cvar | bcvar
  ("struct", name, (arg...))   arg = type term or const term
"""
from __future__ import annotations

import random
from typing import Any

STRUCT_MODULE = '''from typing import Generic
from guppylang import guppy
from guppylang.std.builtins import array
from guppylang.std.option import Option
from guppylang.std.quantum import qubit
from guppylang.std.builtins import frozenarray, nat

T = guppy.type_var("T")
U = guppy.type_var("U")
L = guppy.type_var("L", copyable=False, droppable=False)
A = guppy.type_var("A", copyable=False, droppable=True)
n = guppy.nat_var("n")

@guppy.struct
class P0:
    x: int
    y: float

@guppy.struct
class G1(Generic[T]):
    a: T
    b: int

@guppy.struct
class G2(Generic[L, n]):
    xs: array[L, n]

@guppy.struct
class G3(Generic[A, U]):
    p: A
    q: tuple[U, bool]

@guppy.struct
class QS:
    q: qubit
    k: int

@guppy.struct
class AR:
    xs: array[int, 2]
'''

# struct name -> list of (param kind, must_copy, must_drop); kind "type" | "nat"
STRUCTS = {
    "P0": [],
    "G1": [("type", True, True)],
    "G2": [("type", False, False), ("nat", None, None)],
    "G3": [("type", False, True), ("type", True, True)],
    "QS": [],
    "AR": [],
}
# field types as terms over ("param", i)
STRUCT_FIELDS = {
    "P0": [("int",), ("float",)],
    "G1": [("param", 0), ("int",)],
    "G2": [("array", ("param", 0), ("param", 1))],
    "G3": [("param", 0), ("tuple", (("param", 1), ("bool",)))],
    "QS": [("qubit",), ("int",)],
    "AR": [("array", ("int",), ("k", 2))],
}


class TyEnv:
    """Loads the struct module through the real decorator and exposes the checked definitions."""

    def __init__(self, ctx) -> None:
        from guppylang_internals.engine import ENGINE

        self.ld = ctx.load(STRUCT_MODULE, "structs")
        ctx._loaded.remove(self.ld)  # keep for the worker's lifetime
        self.defs = {}
        for name in STRUCTS:
            self.defs[name] = ENGINE.get_checked(getattr(self.ld.module, name).id)
        self.vars: dict[int, Any] = {}
        self.cvars: dict[int, Any] = {}

    def refresh(self) -> None:
        """ENGINE.reset() (called by check()) drops the checked cache: re-fetch."""
        from guppylang_internals.engine import ENGINE

        for name in STRUCTS:
            self.defs[name] = ENGINE.get_checked(getattr(self.ld.module, name).id)

    # ------------------------------------------------------------------------ term -> /repo type
    def var(self, i: int, copy: bool = True, drop: bool = True):
        from guppylang_internals.tys.ty import ExistentialTypeVar

        key = (i, copy, drop)
        if key not in self.vars:
            self.vars[key] = ExistentialTypeVar.fresh(f"?v{i}", copy, drop)
        return self.vars[key]

    def cvar(self, i: int):
        from guppylang_internals.tys.builtin import nat_type
        from guppylang_internals.tys.const import ExistentialConstVar

        if i not in self.cvars:
            self.cvars[i] = ExistentialConstVar.fresh(f"?c{i}", nat_type())
        return self.cvars[i]

    def const(self, c):
        from guppylang_internals.tys.builtin import nat_type
        from guppylang_internals.tys.const import BoundConstVar, ConstValue

        if c[0] == "k":
            return ConstValue(nat_type(), c[1])
        if c[0] == "cvar":
            return self.cvar(c[1])
        if c[0] == "bcvar":
            return BoundConstVar(nat_type(), f"n{c[1]}", c[1])
        raise AssertionError(c)

    def ty(self, t):
        from guppylang_internals.tys import builtin as B
        from guppylang_internals.tys.arg import ConstArg, TypeArg
        from guppylang_internals.tys.qubit import qubit_ty
        from guppylang_internals.tys.ty import (
            BoundTypeVar, FuncInput, FunctionType, InputFlags, NoneType, StructType, TupleType,
        )

        k = t[0]
        if k == "var":
            return self.var(t[1], *(t[2:4] if len(t) > 2 else (True, True)))
        if k == "bvar":
            return BoundTypeVar(f"T{t[1]}", t[1], t[2], t[3])
        if k == "nat":
            return B.nat_type()
        if k == "int":
            return B.int_type()
        if k == "float":
            return B.float_type()
        if k == "bool":
            return B.bool_type()
        if k == "str":
            return B.string_type()
        if k == "none":
            return NoneType()
        if k == "qubit":
            return qubit_ty()
        if k == "tuple":
            return TupleType([self.ty(x) for x in t[1]])
        if k == "fn":
            flags = {"": InputFlags.NoFlags, "owned": InputFlags.Owned, "inout": InputFlags.Inout}
            return FunctionType([FuncInput(self.ty(a), flags[f]) for a, f in t[1]], self.ty(t[2]))
        if k == "array":
            return B.array_type(self.ty(t[1]), self.const(t[2]))
        if k == "farray":
            return B.frozenarray_type(self.ty(t[1]), self.const(t[2]))
        if k == "option":
            return B.option_type(self.ty(t[1]))
        if k == "list":
            return B.list_type(self.ty(t[1]))
        if k == "struct":
            args = []
            for (pk, _, _), a in zip(STRUCTS[t[1]], t[2]):
                args.append(TypeArg(self.ty(a)) if pk == "type" else ConstArg(self.const(a)))
            return StructType(args, self.defs[t[1]])
        raise AssertionError(t)

    # ------------------------------------------------------------------------ /repo type -> term
    def term(self, ty):
        from guppylang_internals.tys import builtin as B
        from guppylang_internals.tys.arg import TypeArg
        from guppylang_internals.tys.const import (
            BoundConstVar, ConstValue, ExistentialConstVar,
        )
        from guppylang_internals.tys.qubit import is_qubit_ty
        from guppylang_internals.tys.ty import (
            BoundTypeVar, ExistentialTypeVar, FunctionType, InputFlags, NoneType, NumericType,
            OpaqueType, StructType, TupleType,
        )

        if isinstance(ty, ExistentialConstVar):
            for i, v in self.cvars.items():
                if v.id == ty.id:
                    return ("cvar", i)
            return ("cvar", f"unknown{ty.id}")
        if isinstance(ty, ConstValue):
            return ("k", ty.value)
        if isinstance(ty, BoundConstVar):
            return ("bcvar", ty.idx)
        if isinstance(ty, ExistentialTypeVar):
            for (i, c, d), v in self.vars.items():
                if v.id == ty.id:
                    return ("var", i) if (c, d) == (True, True) else ("var", i, c, d)
            return ("var", f"unknown{ty.id}")
        if isinstance(ty, BoundTypeVar):
            return ("bvar", ty.idx, ty.copyable, ty.droppable)
        if isinstance(ty, NumericType):
            return ({NumericType.Kind.Nat: "nat", NumericType.Kind.Int: "int",
                     NumericType.Kind.Float: "float"}[ty.kind],)
        if isinstance(ty, NoneType):
            return ("none",)
        if isinstance(ty, TupleType):
            return ("tuple", tuple(self.term(x) for x in ty.element_types))
        if isinstance(ty, FunctionType):
            fl = {InputFlags.NoFlags: "", InputFlags.Owned: "owned", InputFlags.Inout: "inout"}
            return ("fn", tuple((self.term(i.ty), fl.get(i.flags, str(i.flags))) for i in ty.inputs),
                    self.term(ty.output))
        if isinstance(ty, StructType):
            return ("struct", ty.defn.name,
                    tuple(self.term(a.ty) if isinstance(a, TypeArg) else self.term(a.const)
                          for a in ty.args))
        if isinstance(ty, OpaqueType):
            if B.is_bool_type(ty):
                return ("bool",)
            if B.is_string_type(ty):
                return ("str",)
            if is_qubit_ty(ty):
                return ("qubit",)
            name = None
            for d, nm in ((B.array_type_def, "array"), (B.frozenarray_type_def, "farray"),
                          (B.option_type_def, "option"), (B.list_type_def, "list")):
                if ty.defn is d:
                    name = nm
            if name in ("array", "farray"):
                return (name, self.term(ty.args[0].ty), self.term(ty.args[1].const))
            if name in ("option", "list"):
                return (name, self.term(ty.args[0].ty))
            return ("opaque", ty.defn.name)
        raise AssertionError(type(ty))


# ------------------------------------------------------------------------------------ generation
class TGen:
    def __init__(self, rng: random.Random, *, vars_: int = 0, cvars: int = 0, bvars: list | None = None,
                 bcvars: int = 0, functions: bool = True, linear: bool = True, lists: bool = True,
                 strs: bool = True, farrays: bool = False, big_consts: bool = False):
        self.r = rng
        self.big_consts = big_consts
        self.nv, self.ncv = vars_, cvars
        self.bvars = bvars or []  # list of (idx, copy, drop)
        self.nbc = bcvars
        self.functions, self.linear, self.lists, self.strs, self.farrays = functions, linear, lists, strs, farrays

    def const(self):
        r = self.r
        c = r.random()
        if self.ncv and c < 0.3:
            return ("cvar", r.randrange(self.ncv))
        if self.nbc and c < 0.45:
            return ("bcvar", r.randrange(self.nbc))
        if self.big_consts and r.random() < 0.3:
            # every nat is a legal size argument: powers of two around the 32/63/64-bit marks, multi-digit values
            return ("k", r.choice([7, 10, 255, 2**31, 2**32 - 1, 2**32, 2**63 - 1, 2**63, 2**63 + 1,
                                   2**64 - 2, 2**64 - 1, r.randint(5, 2**64 - 1), r.randint(5, 10**6)]))
        return ("k", r.randint(0, 4))

    def base(self, need_copy=False, need_drop=False):
        r = self.r
        opts = [("int",), ("nat",), ("float",), ("bool",), ("none",)]
        if self.strs:
            opts.append(("str",))
        if self.linear and not need_copy and not need_drop:
            opts += [("qubit",)] * 2
        return r.choice(opts)

    def ty(self, depth: int, need_copy=False, need_drop=False):
        """need_copy/need_drop: the context (a struct parameter bound) requires it."""
        r = self.r
        if depth <= 0 or r.random() < 0.25:
            c = r.random()
            if self.nv and c < 0.35:
                return ("var", r.randrange(self.nv))
            ok_b = [b for b in self.bvars if (b[1] or not need_copy) and (b[2] or not need_drop)]
            if ok_b and c < 0.5:
                b = r.choice(ok_b)
                return ("bvar", *b)
            return self.base(need_copy, need_drop)
        k = r.randrange(10)
        if k <= 2:
            n = r.choice([0, 1, 2, 2, 3])
            return ("tuple", tuple(self.ty(depth - 1, need_copy, need_drop) for _ in range(n)))
        if k == 3 and not need_copy:
            return ("array", self.ty(depth - 1, False, need_drop), self.const())
        if k == 4:
            return ("option", self.ty(depth - 1, need_copy, need_drop))
        if k == 5 and self.lists:
            return ("list", self.ty(depth - 1, need_copy, need_drop))
        if k == 6 and self.functions:
            n = r.randint(0, 2)
            ins = []
            for _ in range(n):
                t = self.ty(depth - 1)
                ins.append((t, r.choice(["", "owned"]) if t == ("qubit",) else ""))
            return ("fn", tuple(ins), self.ty(depth - 1))
        if k == 7 and self.farrays:
            return ("farray", self.ty(depth - 1, True, True), self.const())
        if k >= 8:
            name = r.choice(list(STRUCTS))
            if need_copy and name in ("G2", "QS", "AR"):
                name = "P0"
            if need_drop and name in ("QS",):
                name = "P0"
            args = []
            for pk, mc, md in STRUCTS[name]:
                if pk == "type":
                    args.append(self.ty(depth - 1, need_copy or bool(mc), need_drop or bool(md)))
                else:
                    args.append(self.const())
            return ("struct", name, tuple(args))
        return self.base(need_copy, need_drop)


def size(t) -> int:
    if not isinstance(t, tuple):
        return 1
    return 1 + sum(size(x) for x in t[1:] if isinstance(x, tuple)) + \
        sum(size(y) for x in t[1:] if isinstance(x, tuple) for y in x if isinstance(y, tuple) and x and isinstance(x[0], tuple))


def depth(t) -> int:
    if not isinstance(t, tuple) or not t:
        return 0
    sub = [x for x in t[1:] if isinstance(x, tuple)]
    d = 0
    for x in sub:
        if x and isinstance(x[0], tuple):
            d = max([d] + [depth(y[0] if isinstance(y, tuple) and y and isinstance(y[0], tuple) else y)
                           for y in x])
        else:
            d = max(d, depth(x))
    return 1 + d


def shape(t) -> Any:
    """Constructor skeleton with variable pattern (for fingerprints)."""
    if not isinstance(t, tuple):
        return t
    if t and t[0] in ("var", "cvar", "bvar", "bcvar", "k"):
        return t[0]
    return tuple(shape(x) for x in t)


# -------------------------------------------------------------------------- structural copy/drop
def copy_drop(t, inst=None) -> tuple[bool, bool]:
    """(copyable, droppable) by the statement's structural rule."""
    k = t[0]
    if k in ("nat", "int", "float", "bool", "none", "str", "fn"):
        return True, True
    if k == "qubit":
        return False, False
    if k == "var":
        return (t[2], t[3]) if len(t) > 2 else (True, True)
    if k == "bvar":
        return t[2], t[3]
    if k == "tuple":
        cs = [copy_drop(x) for x in t[1]]
        return all(c for c, _ in cs), all(d for _, d in cs)
    if k == "array":
        _, d = copy_drop(t[1])
        return False, d
    if k == "farray":
        return copy_drop(t[1])
    if k in ("option", "list"):
        return copy_drop(t[1])
    if k == "struct":
        def subst(f):
            if f[0] == "param":
                return t[2][f[1]]
            if f[0] in ("tuple",):
                return ("tuple", tuple(subst(x) for x in f[1]))
            if f[0] == "array":
                return ("array", subst(f[1]), f[2])
            return f
        cs = [copy_drop(subst(f)) for f in STRUCT_FIELDS[t[1]]]
        return all(c for c, _ in cs), all(d for _, d in cs)
    raise AssertionError(t)


STRUCT_MODULE_EXTRA = '''
from guppylang.std.builtins import frozenarray, nat
from guppylang.std.option import Option
'''
