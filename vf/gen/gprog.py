"""G-prog: typed, definedness- and move-directed random generator of Python source that is both
valid Guppy and executable by CPython against the stubs in opy.py.

Variables carry their type in their name prefix and never change type.  Arrays follow move
discipline (tracked here) so programs are linear-correct by construction.  Every `while` has a fuel
variable decremented first thing in the body, so termination is by construction."""
from __future__ import annotations

import random
from dataclasses import dataclass, field
from typing import Any

# ----------------------------------------------------------------------------------------- types


@dataclass(frozen=True)
class Ty:
    kind: str  # int float bool tuple struct array
    elems: tuple = ()
    name: str = ""
    n: int = 0

    def code(self) -> str:
        if self.kind in ("int", "float", "bool"):
            return self.kind
        if self.kind == "tuple":
            return "tuple[" + ", ".join(e.code() for e in self.elems) + "]"
        if self.kind == "struct":
            return self.name
        if self.kind == "array":
            return f"array[{self.elems[0].code()}, {self.n}]"
        raise AssertionError(self.kind)

    @property
    def copyable(self) -> bool:
        if self.kind == "array":
            return False
        if self.kind in ("tuple",):
            return all(e.copyable for e in self.elems)
        if self.kind == "struct":
            return all(t.copyable for _, t in self.elems)
        return True

    def prefix(self) -> str:
        return {"int": "i", "float": "f", "bool": "b", "tuple": "t", "struct": "s",
                "array": "x"}[self.kind]


INT, FLOAT, BOOL = Ty("int"), Ty("float"), Ty("bool")


def tup(*e: Ty) -> Ty:
    return Ty("tuple", tuple(e))


def arr(e: Ty, n: int) -> Ty:
    return Ty("array", (e,), n=n)


def struct(name: str, fields: list[tuple[str, Ty]]) -> Ty:
    return Ty("struct", tuple(fields), name=name)


SCALARS = [INT, FLOAT, BOOL]


@dataclass
class Func:
    name: str
    params: list[tuple[str, Ty, bool]]  # (name, type, owned)
    ret: Ty
    lines: list[str] = field(default_factory=list)
    kinds: list[tuple[int, str]] = field(default_factory=list)


@dataclass
class Profile:
    n_funcs: tuple[int, int] = (1, 3)
    max_stmts: int = 14
    max_depth: int = 3
    structs: bool = True
    arrays: bool = True
    tuples: bool = True
    floats: bool = True
    nested_funcs: bool = True
    walrus: bool = True
    dead_code: bool = True
    starred: bool = True
    comprehensions: bool = True
    big_consts: bool = True
    results_in_body: bool = True


class Gen:
    def __init__(self, rng: random.Random, profile: Profile | None = None) -> None:
        self.r = rng
        self.p = profile or Profile()
        self.structs: list[Ty] = []
        self.funcs: list[Func] = []
        self.tagn = 0
        self.kinds: list[tuple[int, str]] = []

    # ------------------------------------------------------------------------------ utilities
    def tag(self) -> str:
        self.tagn += 1
        return f"r{self.tagn}"

    def pick(self, xs: list[Any]) -> Any:
        return xs[self.r.randrange(len(xs))]

    def chance(self, p: float) -> bool:
        return self.r.random() < p

    # --------------------------------------------------------------------------------- types
    def make_structs(self) -> None:
        if not self.p.structs:
            return
        sa = struct("SA", [("a", INT), ("b", self.pick([INT, FLOAT] if self.p.floats else [INT]))])
        self.structs.append(sa)
        if self.chance(0.6):
            f2: list[tuple[str, Ty]] = [("p", tup(INT, BOOL)), ("k", sa)]
            if self.chance(0.5):
                f2.append(("z", INT))
            self.structs.append(struct("SB", f2))

    def value_types(self) -> list[Ty]:
        ts = [INT, INT, BOOL]
        if self.p.floats:
            ts.append(FLOAT)
        if self.p.tuples:
            ts += [tup(INT, INT), tup(INT, FLOAT if self.p.floats else BOOL, BOOL),
                   tup(INT, tup(BOOL, INT))]
        ts += self.structs
        return ts

    def array_types(self) -> list[Ty]:
        if not self.p.arrays:
            return []
        ts = [arr(INT, 2), arr(INT, 3), arr(INT, 4), arr(BOOL, 2)]
        if self.p.floats:
            ts.append(arr(FLOAT, 3))
        return ts

    # ------------------------------------------------------------------------------- program
    def program(self) -> "Program":
        self.make_structs()
        nf = self.r.randint(*self.p.n_funcs)
        for k in range(nf):
            self.funcs.append(FuncGen(self, k).generate())
        main_lines = self.make_main()
        return Program(self, main_lines)

    def literal(self, ty: Ty, small: bool = False) -> str:
        r = self.r
        if ty.kind == "int":
            if not small and self.p.big_consts and self.chance(0.06):
                return str(self.pick([2**31, 2**31 - 1, -(2**31), 2**32 + 1, 2**62, -(2**62),
                                      2**63 - 1, 1000003, 65537]))
            return str(r.randint(-9, 20))
        if ty.kind == "float":
            return repr(r.randint(-20, 20) / 4)
        if ty.kind == "bool":
            return self.pick(["True", "False"])
        if ty.kind == "tuple":
            return "(" + ", ".join(self.literal(e, small) for e in ty.elems) + \
                ("," if len(ty.elems) == 1 else "") + ")"
        if ty.kind == "struct":
            return f"{ty.name}(" + ", ".join(self.literal(t, small) for _, t in ty.elems) + ")"
        if ty.kind == "array":
            return "array(" + ", ".join(self.literal(ty.elems[0], small) for _ in range(ty.n)) + ")"
        raise AssertionError

    def report_lines(self, expr: str, ty: Ty, indent: str) -> list[str]:
        """Lines reporting every resultable component of `expr` (which must be cheap & pure)."""
        out: list[str] = []
        if ty.kind in ("int", "float", "bool"):
            out.append(f'{indent}result("{self.tag()}", {expr})')
        elif ty.kind == "array":
            out.append(f'{indent}result("{self.tag()}", {expr})')
        elif ty.kind == "tuple":
            for k, e in enumerate(ty.elems):
                out += self.report_lines(f"{expr}[{k}]", e, indent)
        elif ty.kind == "struct":
            for fn, t in ty.elems:
                out += self.report_lines(f"{expr}.{fn}", t, indent)
        return out

    def make_main(self) -> list[str]:
        lines: list[str] = []
        vn = 0
        roots = self.funcs[-2:] if len(self.funcs) > 1 and self.chance(0.5) else self.funcs[-1:]
        for f in roots:
            for _ in range(self.r.randint(2, 3)):
                args = [self.literal(t, small=False) for _, t, _ in f.params]
                vn += 1
                v = f"m{vn}"
                lines.append(f"    {v} = {f.name}({', '.join(args)})")
                if f.ret.kind == "array":
                    lines.append(f'    result("{self.tag()}", {v})')
                else:
                    lines += self.report_lines(v, f.ret, "    ")
        return lines


class FuncGen:
    def __init__(self, g: Gen, k: int) -> None:
        self.g = g
        self.r = g.r
        self.k = k
        self.vn = 0
        self.lines: list[str] = []
        self.kinds: list[tuple[int, str]] = []
        self.budget = 0
        self.loop_depth = 0
        self.depth = 0
        # var -> (type, loop depth at definition)
        self.env: dict[str, tuple[Ty, int]] = {}
        self.local_funcs: dict[str, tuple[list[Ty], Ty]] = {}
        self.ret: Ty = INT

    # --------------------------------------------------------------------------------- names
    def fresh(self, ty: Ty) -> str:
        self.vn += 1
        return f"{ty.prefix()}{self.vn}"

    def vars_of(self, ty: Ty) -> list[str]:
        return [v for v, (t, _) in self.env.items() if t == ty]

    def kind(self, k: str) -> None:
        self.kinds.append((self.depth, k))

    # ------------------------------------------------------------------------------ function
    def generate(self) -> Func:
        g, r = self.g, self.r
        nparams = r.randint(1, 4)
        params: list[tuple[str, Ty, bool]] = []
        for _ in range(nparams):
            if g.array_types() and g.chance(0.2):
                ty = g.pick(g.array_types())
                owned = g.chance(0.5)
            else:
                ty = g.pick(g.value_types())
                owned = False
            name = self.fresh(ty)
            params.append((name, ty, owned))
            self.env[name] = (ty, 0 if owned or ty.copyable else -1)  # -1: borrowed, never movable
        rets = g.value_types() + (g.array_types()[:2] if g.chance(0.15) else [])
        self.ret = g.pick(rets)
        self.budget = r.randint(4, g.p.max_stmts)
        fell = self.block("    ")
        if fell:
            self.lines.append(f"    return {self.expr(self.ret, 2)}")
        f = Func(f"fun{self.k}", params, self.ret, self.lines, self.kinds)
        return f

    # ---------------------------------------------------------------------------- statements
    def block(self, ind: str, min_stmts: int = 1) -> bool:
        """Emit statements at indentation `ind`; returns True if control can fall off the end."""
        n = 0
        start = len(self.lines)
        while self.budget > 0 and (n < min_stmts or self.g.chance(0.8)):
            n += 1
            self.budget -= 1
            if not self.stmt(ind):
                if self.g.p.dead_code and self.g.chance(0.3):
                    # unreachable code after a jump: only definitely-defined names, nothing moved
                    saved = dict(self.env)
                    self.lines.append(f'{ind}result("{self.g.tag()}", {self.expr(INT, 1)})')
                    self.kind("dead")
                    self.env = saved
                return False
            if n > 8:
                break
        if len(self.lines) == start:
            self.lines.append(f"{ind}pass")
        return True

    def stmt(self, ind: str) -> bool:
        g = self.g
        choices = ["assign"] * 5 + ["aug"] * 2 + ["result"] * 3 + ["if"] * 3
        if self.depth < g.p.max_depth:
            choices += ["while"] * 2 + ["for"] * 2
        if self.loop_depth > 0:
            choices += ["break", "continue"]
        if self.depth > 0:
            choices += ["return"]
        if g.p.tuples:
            choices += ["unpack"] * 2 + ["rebind"]
        if g.p.arrays:
            choices += ["arr_set", "arr_new", "arr_new"]
        if g.p.nested_funcs and self.depth == 0 and not self.local_funcs:
            choices += ["nested"]
        if g.funcs:
            choices += ["call"] * 2
        c = g.pick(choices)
        return getattr(self, "s_" + c)(ind)

    def define(self, name: str, ty: Ty) -> None:
        self.env[name] = (ty, self.loop_depth)

    def s_assign(self, ind: str) -> bool:
        ty = self.g.pick(self.g.value_types())
        # reassign an existing variable half of the time
        olds = [v for v in self.vars_of(ty) if self.env[v][1] >= 0 or ty.copyable]
        e = self.expr(ty, 3)
        if olds and self.g.chance(0.45):
            v = self.g.pick(olds)
            self.lines.append(f"{ind}{v} = {e}")
            self.kind("reassign")
        else:
            v = self.fresh(ty)
            if self.g.chance(0.15) and ty.kind in ("int", "float", "bool"):
                self.lines.append(f"{ind}{v}: {ty.code()} = {e}")
            else:
                self.lines.append(f"{ind}{v} = {e}")
            self.define(v, ty)
            self.kind("assign")
        return True

    def s_aug(self, ind: str) -> bool:
        ty = INT if not self.g.p.floats or self.g.chance(0.7) else FLOAT
        vs = self.vars_of(ty)
        if not vs:
            return self.s_assign(ind)
        v = self.g.pick(vs)
        if ty == INT:
            op = self.g.pick(["+", "-", "*", "//", "%", "&", "|", "^"])
            rhs = str(self.r.randint(1, 7)) if op in ("//", "%") else self.expr(INT, 2)
        else:
            op = self.g.pick(["+", "-", "*"])
            rhs = self.expr(FLOAT, 1) if op != "*" else self.g.pick(["0.5", "2.0", "-1.0", "1.5"])
        self.lines.append(f"{ind}{v} {op}= {rhs}")
        self.kind("aug")
        return True

    def s_result(self, ind: str) -> bool:
        if not self.g.p.results_in_body:
            return self.s_assign(ind)
        ty = self.g.pick(SCALARS if self.g.p.floats else [INT, BOOL])
        self.lines.append(f'{ind}result("{self.g.tag()}", {self.expr(ty, 2)})')
        self.kind("result")
        return True

    def cond(self) -> tuple[str, list[tuple[str, Ty]]]:
        """A bool condition; may define a walrus variable (returned) when at statement level."""
        if self.g.p.walrus and self.g.chance(0.15):
            v = self.fresh(INT)
            e = self.expr(INT, 2)
            cmp = self.g.pick(["<", "<=", ">", ">=", "==", "!="])
            c = f"({v} := {e}) {cmp} {self.expr(INT, 1)}"
            return c, [(v, INT)]
        return self.expr(BOOL, 3), []

    def s_if(self, ind: str) -> bool:
        c, defs = self.cond()
        for v, t in defs:
            self.define(v, t)
        self.kind("if")
        self.depth += 1
        base = dict(self.env)
        self.lines.append(f"{ind}if {c}:")
        outs: list[dict | None] = []
        ends: list[dict] = []  # environment at the end of every arm, fallen through or not
        fell = self.block(ind + "    ")
        outs.append(dict(self.env) if fell else None)
        ends.append(dict(self.env))
        nel = 0
        while self.g.chance(0.25) and nel < 2 and self.budget > 0:
            nel += 1
            self.env = dict(base)
            # elif conditions must not define walrus names (only maybe-defined afterwards)
            self.lines.append(f"{ind}elif {self.expr(BOOL, 2)}:")
            self.kind("elif")
            fell = self.block(ind + "    ")
            outs.append(dict(self.env) if fell else None)
            ends.append(dict(self.env))
        if self.g.chance(0.6) or nel:
            self.env = dict(base)
            self.lines.append(f"{ind}else:")
            self.kind("else")
            fell = self.block(ind + "    ")
            outs.append(dict(self.env) if fell else None)
            ends.append(dict(self.env))
        else:
            outs.append(dict(base))
            ends.append(dict(base))
        self.depth -= 1
        live = [o for o in outs if o is not None]
        if not live:
            # every arm jumps: what follows is unreachable, and guppy checks unreachable code as if the
            # jumps fell through — dead code may read only names defined (and not moved) at the end of
            # *every* arm (it used to see the last arm's names)
            self.env = {v: info for v, info in ends[0].items()
                        if all(v in o and o[v][0] == info[0] for o in ends)}
            return False
        # join: keep variables defined (and not moved) on every incoming path
        joined = {}
        for v, info in live[0].items():
            if all(v in o and o[v][0] == info[0] for o in live):
                # a variable first defined inside a branch at a deeper loop level keeps min depth
                joined[v] = (info[0], min(o[v][1] for o in live))
        self.env = joined
        return True

    def s_while(self, ind: str) -> bool:
        fuel = f"w{self.vn + 1}"
        self.vn += 1
        n = self.r.randint(1, 4)
        self.lines.append(f"{ind}{fuel} = {n}")
        base = dict(self.env)
        extra = ""
        if self.g.chance(0.5):
            extra = f" and {self.expr(BOOL, 2)}"
        self.lines.append(f"{ind}while {fuel} > 0{extra}:")
        self.lines.append(f"{ind}    {fuel} -= 1")
        self.kind("while")
        self.depth += 1
        self.loop_depth += 1
        self.block(ind + "    ")
        self.loop_depth -= 1
        self.depth -= 1
        # after the loop only what was defined before it is definitely defined; arrays that were
        # defined outside cannot have been moved inside (move rule), so `base` is intact
        self.env = {v: i for v, i in base.items() if v in self.env or True}
        self.env = dict(base)
        return True

    def s_for(self, ind: str) -> bool:
        g = self.g
        base = dict(self.env)
        movable = [v for v, (t, d) in self.env.items()
                   if t.kind == "array" and d == self.loop_depth and t.n > 0]
        it = self.fresh(INT)
        if movable and g.chance(0.35):
            xs = g.pick(movable)
            ety = self.env[xs][0].elems[0]
            it = self.fresh(ety)
            del self.env[xs]
            base = dict(self.env)
            self.lines.append(f"{ind}for {it} in {xs}:")
            self.kind("for_array")
            ity = ety
        else:
            form = self.r.randrange(3)
            if form == 0:
                rng = f"range({self.r.randint(0, 4)})"
            elif form == 1:
                a = self.r.randint(-3, 3)
                rng = f"range({a}, {a + self.r.randint(0, 4)})"
            else:
                a = self.r.randint(-3, 6)
                step = g.pick([1, 2, 3, -1, -2])
                cnt = self.r.randint(0, 3)
                rng = f"range({a}, {a + step * cnt}, {step})"
            self.lines.append(f"{ind}for {it} in {rng}:")
            self.kind("for_range")
            ity = INT
        self.depth += 1
        self.loop_depth += 1
        self.define(it, ity)
        self.block(ind + "    ")
        self.loop_depth -= 1
        self.depth -= 1
        self.env = dict(base)
        return True

    def s_break(self, ind: str) -> bool:
        self.lines.append(f"{ind}break")
        self.kind("break")
        return False

    def s_continue(self, ind: str) -> bool:
        self.lines.append(f"{ind}continue")
        self.kind("continue")
        return False

    def s_return(self, ind: str) -> bool:
        self.lines.append(f"{ind}return {self.expr(self.ret, 2)}")
        self.kind("return")
        return False

    def s_unpack(self, ind: str) -> bool:
        g = self.g
        tts = [t for t in g.value_types() if t.kind == "tuple"]
        if g.p.starred and g.chance(0.3):
            # starred unpacking of an int tuple literal / expression list
            # guppy cannot infer the element type of an empty rest: rest has >= 1 element
            nl, nr = g.pick([(2, 0), (1, 1), (0, 2), (1, 0), (0, 1), (2, 1), (1, 2), (3, 1), (0, 3)])
            rest_n = self.r.randint(1, 3)
            n = nl + nr + rest_n
            lefts = [self.fresh(INT) for _ in range(nl)]
            rights = [self.fresh(INT) for _ in range(nr)]
            xr = self.fresh(arr(INT, rest_n))
            tgt = ", ".join(lefts + [f"*{xr}"] + rights)
            # distinct element values, so a shifted or permuted slice is visible
            base = self.r.randint(1, 50)
            rhs_items = [str(base + 7 * j) if g.chance(0.6) else f"({self.expr(INT, 1)})" for j in range(n)]
            rhs = ", ".join(rhs_items)
            self.lines.append(f"{ind}{tgt} = {rhs}")
            # the installed QIS compiler mishandles whole-array ops (result, copy) on the offset
            # arrays a starred unpack produces; rebuild the rest element-wise (same meaning)
            self.lines.append(f"{ind}{xr} = array(" + ", ".join(f"{xr}[{j}]" for j in range(rest_n)) + ")")
            for v in lefts + rights:
                self.define(v, INT)
            self.define(xr, arr(INT, rest_n))
            if g.p.results_in_body:
                for v in lefts + rights:
                    self.lines.append(f'{ind}result("{g.tag()}", {v})')
                for j in range(rest_n):
                    self.lines.append(f'{ind}result("{g.tag()}", {xr}[{j}])')
            self.kind("starred")
            return True
        if not tts:
            return self.s_assign(ind)
        ty = g.pick(tts)
        e = self.expr(ty, 2)

        def pat(t: Ty) -> str:
            if t.kind == "tuple" and g.chance(0.7):
                return "(" + ", ".join(pat(x) for x in t.elems) + ")"
            v = self.fresh(t)
            self.define(v, t)
            return v

        tgt = ", ".join(pat(x) for x in ty.elems)
        self.lines.append(f"{ind}{tgt} = {e}")
        self.kind("unpack")
        return True

    def s_rebind(self, ind: str) -> bool:
        """Whole read, rebind, whole read of a tuple / struct variable inside one basic block, all
        three observed (a stale cached wire for the packed value would show as the old value)."""
        g = self.g
        tys = [t for t in g.value_types() if t.kind in ("tuple", "struct")]
        if not tys:
            return self.s_assign(ind)
        ty = g.pick(tys)
        olds = self.vars_of(ty)
        if olds and g.chance(0.6):
            v = g.pick(olds)
        else:
            v = self.fresh(ty)
            self.lines.append(f"{ind}{v} = {self.expr(ty, 1)}")
            self.define(v, ty)
        a, b = self.fresh(ty), self.fresh(ty)
        self.lines.append(f"{ind}{a} = {v}")
        # new value must differ from the old one in every leaf: build from shifted projections
        self.lines.append(f"{ind}{v} = {self.shifted(v, ty)}")
        self.lines.append(f"{ind}{b} = {v}")
        self.define(a, ty)
        self.define(b, ty)
        if g.p.results_in_body:
            self.lines += g.report_lines(a, ty, ind)
            self.lines += g.report_lines(b, ty, ind)
            self.lines += g.report_lines(v, ty, ind)
        self.kind("rebind")
        return True

    def shifted(self, expr: str, ty: Ty) -> str:
        """An expression of type `ty` all of whose leaves differ from those of `expr`."""
        if ty.kind == "int":
            return f"({expr} + 1)"
        if ty.kind == "float":
            return f"({expr} + 0.5)"
        if ty.kind == "bool":
            return f"(not {expr})"
        if ty.kind == "tuple":
            return "(" + ", ".join(self.shifted(f"{expr}[{k}]", e) for k, e in enumerate(ty.elems)) + \
                ("," if len(ty.elems) == 1 else "") + ")"
        if ty.kind == "struct":
            return f"{ty.name}(" + ", ".join(self.shifted(f"{expr}.{fn}", t) for fn, t in ty.elems) + ")"
        raise AssertionError(ty.kind)

    def s_arr_new(self, ind: str) -> bool:
        g = self.g
        ty = g.pick(g.array_types())
        v = self.fresh(ty)
        form = self.r.randrange(4)
        ety = ty.elems[0]
        if form == 0 and g.p.comprehensions and ety == INT:
            olds = self.vars_of(INT)
            if olds and g.chance(0.4):
                # the comprehension target shadows an existing variable: the outer variable keeps
                # its value (and stays defined) after the comprehension, as in Python
                k = g.pick(olds)
                saved = self.env[k]
                body = self.expr(INT, 1, only={k})
                self.env[k] = saved
                e = f"array({body} for {k} in range({ty.n}))"
                self.kind("comprehension_shadowing")
                self.lines.append(f"{ind}{v} = {e}")
                self.define(v, ty)
                if g.p.results_in_body:
                    self.lines.append(f'{ind}result("{g.tag()}", {k})')
                return True
            k = self.fresh(INT)
            self.env[k] = (INT, self.loop_depth)
            body = self.expr(INT, 1, only={k})
            del self.env[k]
            e = f"array({body} for {k} in range({ty.n}))"
            self.kind("comprehension")
        elif form == 1:
            src = [u for u in self.vars_of(ty)]
            if src and g.chance(0.7):
                e = f"{g.pick(src)}.copy()"
                self.kind("arr_copy")
            else:
                e = "array(" + ", ".join(self.expr(ety, 1) for _ in range(ty.n)) + ")"
                self.kind("arr_lit")
        else:
            e = "array(" + ", ".join(self.expr(ety, 2) for _ in range(ty.n)) + ")"
            self.kind("arr_lit")
        self.lines.append(f"{ind}{v} = {e}")
        self.define(v, ty)
        return True

    def s_arr_set(self, ind: str) -> bool:
        cands = [v for v, (t, _) in self.env.items() if t.kind == "array" and t.n > 0]
        if not cands:
            return self.s_arr_new(ind)
        v = self.g.pick(cands)
        ty = self.env[v][0]
        idx = self.index_expr(ty.n)
        ety = ty.elems[0]
        if ety == INT and self.g.chance(0.3):
            self.lines.append(f"{ind}{v}[{idx}] += {self.expr(INT, 1)}")
            self.kind("arr_aug")
        else:
            self.lines.append(f"{ind}{v}[{idx}] = {self.expr(ety, 2)}")
            self.kind("arr_set")
        return True

    def index_expr(self, n: int) -> str:
        if self.g.chance(0.6):
            return str(self.r.randrange(n))
        ivs = self.vars_of(INT)
        if ivs and n > 0:
            return f"({self.g.pick(ivs)} % {n})"
        return str(self.r.randrange(n))

    def s_nested(self, ind: str) -> bool:
        name = f"g{self.k}_{self.vn + 1}"
        self.vn += 1
        ptys = [self.g.pick(SCALARS if self.g.p.floats else [INT, BOOL])
                for _ in range(self.r.randint(1, 2))]
        ret = self.g.pick([INT, BOOL])
        sub = FuncGen(self.g, self.k)
        sub.vn = self.vn + 100
        ps = []
        for t in ptys:
            v = sub.fresh(t)
            sub.env[v] = (t, 0)
            ps.append(f"{v}: {t.code()}")
        self.lines.append(f"{ind}def {name}({', '.join(ps)}) -> {ret.code()}:")
        if self.g.chance(0.5):
            c = sub.expr(BOOL, 2)
            self.lines.append(f"{ind}    if {c}:")
            self.lines.append(f"{ind}        return {sub.expr(ret, 2)}")
        self.lines.append(f"{ind}    return {sub.expr(ret, 2)}")
        self.local_funcs[name] = (ptys, ret)
        self.kind("nested_def")
        return True

    def s_call(self, ind: str) -> bool:
        f = self.g.pick(self.g.funcs)
        e = self.call_expr(f)
        if e is None:
            return self.s_assign(ind)
        v = self.fresh(f.ret)
        self.lines.append(f"{ind}{v} = {e}")
        self.define(v, f.ret)
        self.kind("call")
        return True

    def call_expr(self, f: Func) -> str | None:
        args = []
        moved: list[str] = []
        for _, t, owned in f.params:
            if t.kind == "array":
                if owned:
                    movable = [v for v in self.vars_of(t)
                               if self.env[v][1] == self.loop_depth and v not in moved]
                    if movable and self.g.chance(0.5):
                        v = self.g.pick(movable)
                        moved.append(v)
                        args.append(v)
                        # gone at once: a nested call generated for a later argument must not move
                        # (or lend) the same array again
                        del self.env[v]
                    else:
                        args.append(self.g.literal(t, small=True))
                else:
                    vs = [v for v in self.vars_of(t) if v not in moved and v not in args]
                    if not vs:
                        return None
                    args.append(self.g.pick(vs))
            else:
                args.append(self.expr(t, 1))
        return f"{f.name}({', '.join(args)})"

    # --------------------------------------------------------------------------- expressions
    def expr(self, ty: Ty, depth: int, only: set[str] | None = None) -> str:
        g = self.g

        def vars_(t: Ty) -> list[str]:
            vs = self.vars_of(t)
            return [v for v in vs if only is None or v in only]

        if ty.kind == "array":
            # arrays as expressions: fresh literal (used for returns)
            movable = [v for v in vars_(ty) if self.env[v][1] == self.loop_depth]
            if movable and g.chance(0.6) and only is None:
                v = g.pick(movable)
                del self.env[v]
                return v
            return "array(" + ", ".join(self.expr(ty.elems[0], max(0, depth - 1), only)
                                        for _ in range(ty.n)) + ")"
        if depth <= 0:
            vs = vars_(ty)
            if vs and g.chance(0.75):
                return g.pick(vs)
            return self.leaf(ty, only)
        k = ty.kind
        if k == "int":
            c = self.r.randrange(14)
            if c < 4:
                op = g.pick(["+", "-", "*", "+", "-", "&", "|", "^"])
                return f"({self.expr(INT, depth - 1, only)} {op} {self.expr(INT, depth - 1, only)})"
            if c == 4:
                op = g.pick(["//", "%"])
                return f"({self.expr(INT, depth - 1, only)} {op} {self.r.randint(1, 9)})"
            if c == 5:
                return f"(({self.expr(INT, depth - 1, only)} & 255) >> {self.r.randint(0, 7)})"
            if c == 6:
                return f"({self.expr(INT, depth - 1, only)} << {self.r.randint(0, 3)})"
            if c == 7:
                return f"(-{self.expr(INT, depth - 1, only)})" if g.chance(0.6) else \
                    f"(~{self.expr(INT, depth - 1, only)})"
            if c == 8:
                return (f"({self.expr(INT, depth - 1, only)} if {self.expr(BOOL, depth - 1, only)} "
                        f"else {self.expr(INT, depth - 1, only)})")
            if c == 9:
                return f"int({self.expr(BOOL, depth - 1, only)})"
            if c == 10 and only is None:
                e = self.access(INT)
                if e:
                    return e
            if c == 11 and only is None:
                e = self.call_of(INT)
                if e:
                    return e
            if c == 12:
                return f"abs({self.expr(INT, depth - 1, only)})"
            return self.expr(INT, 0, only)
        if k == "float":
            c = self.r.randrange(8)
            if c < 3:
                op = g.pick(["+", "-"])
                return f"({self.expr(FLOAT, depth - 1, only)} {op} {self.expr(FLOAT, depth - 1, only)})"
            if c == 3:
                return f"({self.expr(FLOAT, depth - 1, only)} * {g.pick(['0.5', '2.0', '-1.0', '1.5', '0.25'])})"
            if c == 4:
                return (f"({self.expr(FLOAT, depth - 1, only)} if {self.expr(BOOL, depth - 1, only)} "
                        f"else {self.expr(FLOAT, depth - 1, only)})")
            if c == 5 and only is None:
                e = self.access(FLOAT) or self.call_of(FLOAT)
                if e:
                    return e
            if c == 6:
                return f"float({self.expr(INT, 0, only)} % 1024)"
            return self.expr(FLOAT, 0, only)
        if k == "bool":
            c = self.r.randrange(10)
            if c < 4:
                t = INT if not g.p.floats or g.chance(0.7) else FLOAT
                cmp = g.pick(["<", "<=", ">", ">=", "==", "!="])
                return f"({self.expr(t, depth - 1, only)} {cmp} {self.expr(t, depth - 1, only)})"
            if c == 4:
                return f"({self.expr(BOOL, depth - 1, only)} and {self.expr(BOOL, depth - 1, only)})"
            if c == 5:
                return f"({self.expr(BOOL, depth - 1, only)} or {self.expr(BOOL, depth - 1, only)})"
            if c == 6:
                return f"(not {self.expr(BOOL, depth - 1, only)})"
            if c == 7:
                a, b, c2 = (self.expr(INT, depth - 1, only) for _ in range(3))
                o1, o2 = g.pick(["<", "<="]), g.pick(["<", "<=", "!="])
                return f"({a} {o1} {b} {o2} {c2})"
            if c == 8 and only is None:
                e = self.access(BOOL) or self.call_of(BOOL)
                if e:
                    return e
            return self.expr(BOOL, 0, only)
        if k == "tuple":
            vs = vars_(ty)
            if vs and g.chance(0.4):
                return g.pick(vs)
            if only is None and g.chance(0.2):
                e = self.call_of(ty)
                if e:
                    return e
            return "(" + ", ".join(self.expr(e, depth - 1, only) for e in ty.elems) + \
                ("," if len(ty.elems) == 1 else "") + ")"
        if k == "struct":
            vs = vars_(ty)
            if vs and g.chance(0.4):
                return g.pick(vs)
            if only is None and g.chance(0.2):
                e = self.call_of(ty)
                if e:
                    return e
            return f"{ty.name}(" + ", ".join(self.expr(t, depth - 1, only) for _, t in ty.elems) + ")"
        raise AssertionError(k)

    def leaf(self, ty: Ty, only: set[str] | None) -> str:
        return self.g.literal(ty, small=False)

    def access(self, want: Ty) -> str | None:
        """Projection out of a defined tuple/struct/array variable yielding `want`."""
        cands: list[str] = []

        def walk(expr: str, t: Ty, d: int) -> None:
            if d > 3:
                return
            if t == want and d > 0:
                cands.append(expr)
            if t.kind == "tuple":
                for k, e in enumerate(t.elems):
                    walk(f"{expr}[{k}]", e, d + 1)
            elif t.kind == "struct":
                for fn, ft in t.elems:
                    walk(f"{expr}.{fn}", ft, d + 1)
            elif t.kind == "array" and t.n > 0:
                if t.elems[0] == want:
                    cands.append(f"{expr}[{self.index_expr(t.n)}]")
                if want == INT:
                    cands.append(f"len({expr})")

        for v, (t, _) in self.env.items():
            walk(v, t, 0)
        return self.g.pick(cands) if cands else None

    def call_of(self, want: Ty) -> str | None:
        cands: list[Any] = [f for f in self.g.funcs if f.ret == want]
        locs = [n for n, (_, r) in self.local_funcs.items() if r == want]
        if locs and self.g.chance(0.6):
            n = self.g.pick(locs)
            ptys, _ = self.local_funcs[n]
            return f"{n}({', '.join(self.expr(t, 1) for t in ptys)})"
        if not cands:
            return None
        return self.call_expr(self.g.pick(cands))


class Program:
    def __init__(self, g: Gen, main_lines: list[str]) -> None:
        self.g = g
        self.main_lines = main_lines

    HEADER = ("from guppylang import guppy\n"
              "from guppylang.std.builtins import result, array, owned, panic\n\n")

    def text(self) -> str:
        out = [self.HEADER]
        for s in self.g.structs:
            out.append("@guppy.struct\nclass %s:\n" % s.name)
            for fn, t in s.elems:
                out.append(f"    {fn}: {t.code()}\n")
            out.append("\n")
        for f in self.g.funcs:
            ps = ", ".join(f"{n}: {t.code()}" + (" @owned" if o else "") for n, t, o in f.params)
            out.append(f"@guppy\ndef {f.name}({ps}) -> {f.ret.code()}:\n")
            out.append("\n".join(f.lines) + "\n\n")
        out.append("@guppy\ndef main() -> None:\n")
        out.append("\n".join(self.main_lines or ["    pass"]) + "\n")
        return "".join(out)

    def fingerprint(self) -> str:
        import hashlib

        seq = []
        for f in self.g.funcs:
            seq.append("F")
            seq += [f"{d}{k}" for d, k in f.kinds]
        return hashlib.sha1(" ".join(seq).encode()).hexdigest()[:16]

    def kinds(self) -> list[str]:
        return [k for f in self.g.funcs for _, k in f.kinds]

    def nontrivial(self) -> bool:
        ks = set(self.kinds())
        return bool(ks & {"if", "while", "for_range", "for_array"})


def generate(rng: random.Random, profile: Profile | None = None) -> Program:
    return Gen(rng, profile).program()
