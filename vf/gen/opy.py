"""O-py: the CPython oracle.  Executes the *same source text* that is given to Guppy, against stub
definitions, after an AST pass that (a) drops guppylang imports and annotations and (b) routes
every arithmetic BinOp/UnaryOp/AugAssign through a checker that raises OutOfDomain when the exact
Python value leaves the domain where Guppy's semantics are defined to agree (int64 range, exact
float arithmetic, positive divisors, shifts in [0,64)).  Out-of-domain cases are discarded by the
caller, so control flow never depends on wrapped values."""
from __future__ import annotations

import ast
import math
from fractions import Fraction
from typing import Any

I64_MIN, I64_MAX = -(2**63), 2**63 - 1


class OutOfDomain(Exception):
    pass


class Panic(Exception):
    def __init__(self, msg: str):
        super().__init__(msg)
        self.msg = msg


class StepLimit(Exception):
    pass


def _isint(x: Any) -> bool:
    return type(x) is int


def _chk(v: Any) -> Any:
    if type(v) is int:
        if not I64_MIN <= v <= I64_MAX:
            raise OutOfDomain(f"int {v} leaves int64")
    elif type(v) is float:
        if not math.isfinite(v):
            raise OutOfDomain("non-finite float")
    return v


class Oracle:
    """Holds the strictness policy and the recorded stream for one execution."""

    def __init__(self, strict_signed: bool = True, exact_floats: bool = True,
                 max_steps: int = 200_000) -> None:
        self.stream: list[tuple[str, Any]] = []
        self.strict_signed = strict_signed  # C03: only positive divisors / non-negative >> lhs
        self.exact_floats = exact_floats
        self.steps = 0
        self.max_steps = max_steps

    # -- arithmetic ---------------------------------------------------------------------------
    def bin(self, op: str, a: Any, b: Any) -> Any:
        self.steps += 1
        if self.steps > self.max_steps:
            raise StepLimit()
        if isinstance(a, bool) or isinstance(b, bool):
            # bool & | ^ bool stay bools in both languages; anything else is not generated
            if isinstance(a, bool) and isinstance(b, bool) and op in ("&", "|", "^"):
                return {"&": a & b, "|": a | b, "^": a ^ b}[op]
            raise OutOfDomain("arithmetic on bool")
        fa, fb = isinstance(a, float), isinstance(b, float)
        if fa or fb:
            if op not in ("+", "-", "*", "/"):
                raise OutOfDomain(f"float op {op}")
            for x in (a, b):
                if _isint(x) and abs(x) > 2**53:
                    raise OutOfDomain("int operand not exactly representable as float")
            if op == "/":
                if b == 0:
                    raise OutOfDomain("division by zero")
                return _chk(a / b)
            r = {"+": a + b, "-": a - b, "*": a * b}[op]
            if self.exact_floats:
                ex = {"+": Fraction(a) + Fraction(b), "-": Fraction(a) - Fraction(b),
                      "*": Fraction(a) * Fraction(b)}[op]
                if not math.isfinite(r) or Fraction(r) != ex:
                    raise OutOfDomain("inexact float arithmetic")
            return _chk(r)
        if not (_isint(a) and _isint(b)):
            raise OutOfDomain(f"operands {type(a).__name__}, {type(b).__name__}")
        if op == "+":
            return _chk(a + b)
        if op == "-":
            return _chk(a - b)
        if op == "*":
            return _chk(a * b)
        if op in ("//", "%"):
            if b == 0:
                raise OutOfDomain("division by zero")
            if self.strict_signed and b < 0:
                raise OutOfDomain("negative divisor (owned by C04)")
            return _chk(a // b if op == "//" else a % b)
        if op == "/":
            if b == 0 or abs(a) > 2**53 or abs(b) > 2**53:
                raise OutOfDomain("int true division out of exact range")
            return _chk(a / b)
        if op in ("<<", ">>"):
            if not 0 <= b < 64:
                raise OutOfDomain("shift count")
            if op == "<<":
                r = (a << b) & (2**64 - 1)
                return r - 2**64 if r >= 2**63 else r
            if self.strict_signed and a < 0:
                raise OutOfDomain("right shift of negative (owned by C04)")
            return a >> b
        if op == "&":
            return a & b
        if op == "|":
            return a | b
        if op == "^":
            return a ^ b
        if op == "**":
            if b < 0:
                raise OutOfDomain("negative exponent")
            if b > 64 and abs(a) > 1:
                raise OutOfDomain("huge power")
            return _chk(a**b)
        raise OutOfDomain(f"op {op}")

    def un(self, op: str, a: Any) -> Any:
        if op == "not":
            return not a
        if isinstance(a, bool):
            raise OutOfDomain("unary on bool")
        if op == "-":
            return _chk(-a)
        if op == "+":
            return a
        if op == "~":
            if not _isint(a):
                raise OutOfDomain("~float")
            return ~a
        raise OutOfDomain(op)

    # -- side effects -------------------------------------------------------------------------
    def result(self, tag: str, value: Any) -> None:
        self.stream.append((tag, norm_value(value)))

    def panic(self, msg: str, *args: Any) -> Any:
        raise Panic(msg)


def norm_value(v: Any) -> Any:
    """Normal form shared with the emulator side: bool->0/1, arrays->lists."""
    if isinstance(v, bool):
        return int(v)
    if isinstance(v, (list, tuple)):
        return [norm_value(x) for x in v]
    return v


_BINOPS = {
    ast.Add: "+", ast.Sub: "-", ast.Mult: "*", ast.Div: "/", ast.FloorDiv: "//", ast.Mod: "%",
    ast.Pow: "**", ast.LShift: "<<", ast.RShift: ">>", ast.BitAnd: "&", ast.BitOr: "|",
    ast.BitXor: "^",
}
_UNOPS = {ast.USub: "-", ast.UAdd: "+", ast.Invert: "~"}


class _Rewrite(ast.NodeTransformer):
    def visit_ImportFrom(self, node: ast.ImportFrom) -> Any:
        if node.module and node.module.split(".")[0] in ("guppylang", "guppylang_internals"):
            return None
        return node

    def visit_Import(self, node: ast.Import) -> Any:
        keep = [a for a in node.names if a.name.split(".")[0] not in
                ("guppylang", "guppylang_internals")]
        if not keep:
            return None
        node.names = keep
        return node

    def _strip_args(self, args: ast.arguments) -> None:
        for a in [*args.posonlyargs, *args.args, *args.kwonlyargs]:
            a.annotation = None
        if args.vararg:
            args.vararg.annotation = None
        if args.kwarg:
            args.kwarg.annotation = None

    def visit_FunctionDef(self, node: ast.FunctionDef) -> Any:
        self._strip_args(node.args)
        node.returns = None
        self.generic_visit(node)
        return node

    def visit_AnnAssign(self, node: ast.AnnAssign) -> Any:
        self.generic_visit(node)
        if node.value is None:
            # struct field declaration: keep the name, drop the type expression
            node.annotation = ast.Constant(value=None)
            return node
        return ast.copy_location(ast.Assign(targets=[node.target], value=node.value), node)

    def visit_BinOp(self, node: ast.BinOp) -> Any:
        self.generic_visit(node)
        op = _BINOPS.get(type(node.op))
        if op is None:
            return node
        return ast.copy_location(
            ast.Call(func=ast.Attribute(value=ast.Name(id="__vf", ctx=ast.Load()), attr="bin",
                                        ctx=ast.Load()),
                     args=[ast.Constant(value=op), node.left, node.right], keywords=[]), node)

    def visit_UnaryOp(self, node: ast.UnaryOp) -> Any:
        self.generic_visit(node)
        op = _UNOPS.get(type(node.op))
        if op is None:
            return node
        if isinstance(node.operand, ast.Constant) and isinstance(node.operand.value, (int, float)) \
                and not isinstance(node.operand.value, bool):
            return node  # plain negative literal
        return ast.copy_location(
            ast.Call(func=ast.Attribute(value=ast.Name(id="__vf", ctx=ast.Load()), attr="un",
                                        ctx=ast.Load()),
                     args=[ast.Constant(value=op), node.operand], keywords=[]), node)

    def visit_AugAssign(self, node: ast.AugAssign) -> Any:
        self.generic_visit(node)
        op = _BINOPS.get(type(node.op))
        if op is None:
            return node
        helper = None
        if isinstance(node.target, ast.Name):
            load = ast.Name(id=node.target.id, ctx=ast.Load())
            val = ast.Call(func=ast.Attribute(value=ast.Name(id="__vf", ctx=ast.Load()), attr="bin",
                                              ctx=ast.Load()),
                           args=[ast.Constant(value=op), load, node.value], keywords=[])
            return ast.copy_location(ast.Assign(targets=[node.target], value=val), node)
        if isinstance(node.target, ast.Subscript):
            helper = ast.Call(func=ast.Name(id="__vf_aug_sub", ctx=ast.Load()),
                              args=[node.target.value, node.target.slice, ast.Constant(value=op),
                                    node.value], keywords=[])
        elif isinstance(node.target, ast.Attribute):
            helper = ast.Call(func=ast.Name(id="__vf_aug_attr", ctx=ast.Load()),
                              args=[node.target.value, ast.Constant(value=node.target.attr),
                                    ast.Constant(value=op), node.value], keywords=[])
        if helper is None:
            return node
        return ast.copy_location(ast.Expr(value=helper), node)


class _Guppy:
    """Stub for the `guppy` decorator object."""

    def __call__(self, f: Any = None, **kw: Any) -> Any:
        if f is None:
            return lambda g: g
        return f

    def struct(self, cls: Any = None, **kw: Any) -> Any:
        if cls is None:
            return self.struct
        fields = list(getattr(cls, "__annotations__", {}))

        def __init__(self, *args: Any) -> None:
            if len(args) != len(fields):
                raise TypeError("struct arity")
            for k, v in zip(fields, args):
                setattr(self, k, v)

        cls.__init__ = __init__
        cls._vf_fields = fields
        return cls

    def comptime(self, f: Any) -> Any:
        return f

    def declare(self, f: Any) -> Any:
        return f


class Arr(list):
    """Python model of a Guppy array (reference semantics; the generator follows move rules)."""

    def copy(self) -> "Arr":
        return Arr(self)


def _array(*args: Any) -> Arr:
    if len(args) == 1 and hasattr(args[0], "__next__"):
        return Arr(args[0])
    return Arr(args)


def run_source(text: str, entry: str = "main", *, strict_signed: bool = True,
               exact_floats: bool = True, extra_env: dict[str, Any] | None = None,
               max_steps: int = 200_000,
               index_error_is_panic: bool = False) -> tuple[list[tuple[str, Any]], str | None]:
    """Execute `text` under CPython. Returns (stream, panic message|None).
    Raises OutOfDomain when the run leaves the agreed domain, StepLimit on runaway loops."""
    tree = ast.parse(text)
    tree = _Rewrite().visit(tree)
    ast.fix_missing_locations(tree)
    orc = Oracle(strict_signed=strict_signed, exact_floats=exact_floats, max_steps=max_steps)

    def aug_sub(obj: Any, idx: Any, op: str, val: Any) -> None:
        obj[idx] = orc.bin(op, obj[idx], val)

    def aug_attr(obj: Any, name: str, op: str, val: Any) -> None:
        setattr(obj, name, orc.bin(op, getattr(obj, name), val))

    env: dict[str, Any] = {
        "__vf": orc, "__vf_aug_sub": aug_sub, "__vf_aug_attr": aug_attr,
        "guppy": _Guppy(), "array": _array, "result": orc.result, "panic": orc.panic,
        "owned": None, "comptime": (lambda x: x), "nat": int, "__name__": "vf_oracle",
    }
    if extra_env:
        env.update(extra_env)
    code = compile(tree, "<oracle>", "exec")
    exec(code, env)
    try:
        env[entry]()
    except Panic as p:
        return orc.stream, p.msg
    except RecursionError as e:
        raise OutOfDomain("recursion") from e
    except IndexError as e:
        if index_error_is_panic:
            # a too-large index on an array: Guppy panics at that point (callers generate only
            # indices >= len, never negative ones, for which Python would not raise)
            return orc.stream, "index out of bounds"
        raise OutOfDomain("python raised IndexError") from e
    except (ZeroDivisionError, OverflowError) as e:
        # Python raised: outside the property's quantifier ("terminates without raising")
        raise OutOfDomain(f"python raised {type(e).__name__}") from e
    return orc.stream, None
