"""G-generic: generator of *generic* Guppy functions over type variables of all four copy/drop
bounds, nat variables and comptime parameters, whose bodies keep values of those types alive across
branches and loops whose successors need different live sets.

The programs are ownership-correct by construction (the generator tracks, per variable, whether it
is owned / borrowed and which operations its bound allows), so /repo's checker is expected to accept
them; C01 then requires compile() + HUGR validation to succeed.  Functions are compiled on their
own (polymorphic HUGR functions) and through a concrete `main` that instantiates them (type args,
partial monomorphisation of comptime / nat parameters).

Bounds:  cd = copyable+droppable, c = copyable only ("relevant": may be copied, every value must be
used), d = droppable only (affine), l = neither (linear)."""
from __future__ import annotations

import hashlib
import random

KINDS = ["cd", "c", "d", "l"]
TV = {"cd": "TCD", "c": "TC", "d": "TD", "l": "TL"}

HEADER = '''from typing import Generic
from guppylang import guppy
from guppylang.std.builtins import owned, result, array, comptime, nat
from guppylang.std.quantum import qubit, h, measure, discard
from guppylang.std.option import Option, some, nothing

TCD = guppy.type_var("TCD", copyable=True, droppable=True)
TC = guppy.type_var("TC", copyable=True, droppable=False)
TD = guppy.type_var("TD", copyable=False, droppable=True)
TL = guppy.type_var("TL", copyable=False, droppable=False)
n = guppy.nat_var("n")
m = guppy.nat_var("m")

@guppy.declare
def id_cd(x: TCD) -> TCD: ...
@guppy.declare
def id_c(x: TC) -> TC: ...
@guppy.declare
def id_d(x: TD @owned) -> TD: ...
@guppy.declare
def id_l(x: TL @owned) -> TL: ...
@guppy.declare
def peek_cd(x: TCD) -> int: ...
@guppy.declare
def peek_c(x: TC) -> int: ...
@guppy.declare
def peek_d(x: TD) -> int: ...
@guppy.declare
def peek_l(x: TL) -> int: ...
@guppy.declare
def eat_cd(x: TCD) -> None: ...
@guppy.declare
def eat_c(x: TC) -> None: ...
@guppy.declare
def eat_d(x: TD @owned) -> None: ...
@guppy.declare
def eat_l(x: TL @owned) -> None: ...

@guppy.struct
class BoxCD(Generic[TCD]):
    item: TCD
    tag: int

@guppy.struct
class BoxL(Generic[TL]):
    item: TL
    tag: int

@guppy.struct
class BoxD(Generic[TD]):
    item: TD
    tag: int

@guppy.struct
class BoxC(Generic[TC]):
    item: TC
    tag: int

'''

BOX = {"cd": "BoxCD", "c": "BoxC", "d": "BoxD", "l": "BoxL"}


class V:
    """A generic-typed variable: kind, owned?, wrapper ('' plain | 'box' struct | 'pair' tuple[T,int])."""

    def __init__(self, name, kind, owned, wrap=""):
        self.name, self.kind, self.owned, self.wrap = name, kind, owned, wrap

    @property
    def copyable(self):
        return self.kind in ("cd", "c")

    @property
    def droppable(self):
        return self.kind in ("cd", "d")

    def ty(self):
        t = TV[self.kind]
        if self.wrap == "box":
            return f"{BOX[self.kind]}[{t}]"
        if self.wrap == "pair":
            return f"tuple[{t}, int]"
        return t

    def leaf(self):
        """expression of the bare T value inside"""
        if self.wrap == "box":
            return f"{self.name}.item"
        if self.wrap == "pair":
            return f"{self.name}[0]"
        return self.name


class FnGen:
    def __init__(self, rng: random.Random, idx: int):
        self.r = rng
        self.idx = idx
        self.lines: list[str] = []
        self.vn = 0
        self.kinds: list[str] = []
        self.vars: list[V] = []
        self.cls: dict[str, str] = {}  # classical var -> type ('int' | 'float' | 'bool')
        self.fuel = 0
        self.loop_depth = 0

    def chance(self, p):
        return self.r.random() < p

    def pick(self, xs):
        return xs[self.r.randrange(len(xs))]

    # ----------------------------------------------------------------------------------------
    def cexpr(self, ty, cls=None):
        cls = self.cls if cls is None else cls
        vs = [v for v, t in cls.items() if t == ty]
        if ty == "int":
            if vs and self.chance(0.8):
                a = self.pick(vs)
                return self.pick([a, f"{a} + {self.r.randint(1, 5)}", f"{a} * 2", f"{a} - {self.pick(vs)}"])
            return str(self.r.randint(0, 9))
        if ty == "float":
            if vs and self.chance(0.8):
                a = self.pick(vs)
                return self.pick([a, f"{a} + {a}", f"{a} * 0.5"])
            ivs = [v for v, t in cls.items() if t == "int"]
            if ivs and self.chance(0.5):
                return f"float({self.pick(ivs)})"
            return self.pick(["0.5", "2.5", "1.25"])
        if vs and self.chance(0.6):
            return self.pick(vs)
        ivs = [v for v, t in cls.items() if t == "int"]
        if ivs:
            return f"{self.pick(ivs)} {self.pick(['<', '>', '==', '!='])} {self.r.randint(0, 5)}"
        return self.pick(["True", "False"])

    def new_cls(self, ty):
        self.vn += 1
        return f"{ty[0]}{self.vn}"

    # ------------------------------------------------------------------------------- statements
    def s_classical(self, ind, cls, defined_here):
        """assign a classical variable; new names are recorded in `defined_here`"""
        ty = self.pick(["int", "int", "float", "bool"])
        olds = [v for v, t in cls.items() if t == ty and v not in ("kc", "nn")]
        e = self.cexpr(ty, cls)
        if olds and self.chance(0.5):
            v = self.pick(olds)
        else:
            v = self.new_cls(ty)
            cls[v] = ty
            defined_here.add(v)
        self.lines.append(f"{ind}{v} = {e}")
        self.kinds.append("cls")

    def s_value(self, ind, live: list[V], cls, defined_here) -> None:
        """an ownership-preserving (or, for droppable kinds, consuming) operation on a generic value"""
        if not live:
            return self.s_classical(ind, cls, defined_here)
        v = self.pick(live)
        k = v.kind
        ops = ["peek", "peek"]
        if v.owned:
            ops += ["ident", "ident", "selfassign"]
            same = [w for w in live if w is not v and w.owned and w.kind == k and w.wrap == v.wrap]
            if same:
                ops += ["swap", "swap"]
            if v.wrap == "":
                ops += ["repack"]
            if v.wrap in ("box", "pair"):
                ops += ["whole_rebind"]
                ops += ["field_tag"]
                # field assignment is supported for non-copyable fields only
                if not v.copyable:
                    ops += ["field_ident"]
            if v.droppable and self.loop_depth == 0:
                ops += ["kill"]
        if v.copyable:
            ops += ["copy_use", "copy_use"]
        op = self.pick(ops)
        self.kinds.append(f"{op}:{k}{v.wrap[:1]}")
        L = self.lines.append
        if op == "peek":
            iv = self.new_cls("int")
            L(f"{ind}{iv} = peek_{k}({v.leaf()})")
            cls[iv] = "int"
            defined_here.add(iv)
        elif op == "ident":
            if v.wrap == "":
                L(f"{ind}{v.name} = id_{k}({v.name})")
            elif v.wrap == "box":
                L(f"{ind}{v.name} = {BOX[k]}(id_{k}({v.name}.item), {v.name}.tag + 1)")
            else:
                L(f"{ind}{v.name} = (id_{k}({v.name}[0]), {v.name}[1] + 1)")
        elif op == "selfassign":
            tmp = f"w{self.vn + 1}"
            self.vn += 1
            L(f"{ind}{tmp} = {v.name}")
            L(f"{ind}{v.name} = {tmp}")
        elif op == "swap":
            w = self.pick([w for w in live if w is not v and w.owned and w.kind == k and w.wrap == v.wrap])
            L(f"{ind}{v.name}, {w.name} = {w.name}, {v.name}")
        elif op == "repack":
            # through a tuple / struct and back, in one block
            tmp = f"w{self.vn + 1}"
            self.vn += 1
            if self.chance(0.5):
                L(f"{ind}{tmp} = ({v.name}, {self.cexpr('int', cls)})")
                iv = self.new_cls("int")
                L(f"{ind}{v.name}, {iv} = {tmp}")
            else:
                L(f"{ind}{tmp} = {BOX[k]}({v.name}, {self.cexpr('int', cls)})")
                iv = self.new_cls("int")
                L(f"{ind}{iv} = {tmp}.tag")
                L(f"{ind}{v.name} = {tmp}.item")
            cls[iv] = "int"
            defined_here.add(iv)
        elif op == "field_ident":
            if v.wrap == "box":
                L(f"{ind}{v.name}.item = id_{k}({v.name}.item)")
            else:
                L(f"{ind}{v.name} = (id_{k}({v.name}[0]), {v.name}[1])")
        elif op == "field_tag":
            iv = self.new_cls("int")
            L(f"{ind}{iv} = {v.name}.tag" if v.wrap == "box" else f"{ind}{iv} = {v.name}[1]")
            cls[iv] = "int"
            defined_here.add(iv)
        elif op == "whole_rebind":
            # whole read, rebind, whole read again inside one basic block
            tmp = f"w{self.vn + 1}"
            self.vn += 1
            L(f"{ind}{tmp} = {v.name}")
            if v.wrap == "box":
                L(f"{ind}{v.name} = {BOX[k]}({tmp}.item, {tmp}.tag + 7)")
            else:
                L(f"{ind}{v.name} = ({tmp}[0], {tmp}[1] + 7)")
            tmp2 = f"w{self.vn + 1}"
            self.vn += 1
            L(f"{ind}{tmp2} = {v.name}")
            L(f"{ind}{v.name} = {tmp2}")
        elif op == "kill":
            if self.chance(0.5):
                L(f"{ind}eat_{k}({v.leaf()})" if v.wrap == "" else f"{ind}eat_{k}({v.leaf()})")
            else:
                L(f"{ind}pass")
            live.remove(v)
        elif op == "copy_use":
            tmp = f"w{self.vn + 1}"
            self.vn += 1
            L(f"{ind}{tmp} = {v.leaf()}")
            L(f"{ind}eat_{k}({tmp})")

    def block(self, ind, live: list[V], cls, depth, in_loop=False) -> None:
        """statements; `live` (owned or borrowed usable generic vars) is updated in place; classical
        variables defined inside nested arms stay local to them (different live sets at joins)."""
        nst = self.r.randint(1, 4)
        for _ in range(nst):
            c = self.r.random()
            if c < 0.25:
                self.s_classical(ind, cls, set())
            elif c < 0.6:
                self.s_value(ind, live, cls, set())
            elif c < 0.85 and depth < 3:
                self.s_if(ind, live, cls, depth, in_loop)
            elif depth < 2:
                self.s_while(ind, live, cls, depth)
            else:
                self.s_value(ind, live, cls, set())

    def s_if(self, ind, live, cls, depth, in_loop):
        self.kinds.append(f"if{depth}")
        arms = self.r.randint(2, 3)
        lives = []
        for a in range(arms):
            kw = "if" if a == 0 else ("elif" if a < arms - 1 else "else")
            head = f"{ind}{kw} {self.cexpr('bool', cls)}:" if kw != "else" else f"{ind}else:"
            self.lines.append(head)
            acls = dict(cls)
            alive = list(live)
            if in_loop and self.chance(0.12):
                # a jump out of the arm: owned non-droppable values stay owned, so legal
                self.lines.append(f"{ind}    {self.pick(['break', 'continue'])}")
                self.kinds.append("jump")
                continue
            self.block(ind + "    ", alive, acls, depth + 1, in_loop)
            lives.append(alive)
            # classical variables assigned in every arm under the same name would be live after the
            # join; give some arms a common result variable
        # after the join only values live in every arm are usable
        keep = [v for v in live if all(v in lv for lv in lives)] if lives else list(live)
        live[:] = keep
        # a result variable assigned in all arms from arm-local data: written only via pre-defined names
        return

    def s_while(self, ind, live, cls, depth):
        self.kinds.append(f"while{depth}")
        self.fuel += 1
        fv = f"fuel{self.fuel}"
        self.lines.append(f"{ind}{fv} = {self.r.randint(1, 3)}")
        self.lines.append(f"{ind}while {fv} > 0:")
        self.lines.append(f"{ind}    {fv} -= 1")
        body_cls = dict(cls)
        body_cls[fv] = "int"
        # inside a loop body values must stay owned (no kill): pass a copy of live with droppables
        # protected by making them borrowed-like for the body
        body_live = list(live)
        self.loop_depth += 1
        self.block(ind + "    ", body_live, body_cls, depth + 1, in_loop=True)
        self.loop_depth -= 1
        live[:] = [w for w in live if w in body_live]
        cls[fv] = "int"

    # --------------------------------------------------------------------------------- function
    def generate(self) -> tuple[str, str, list[V], list[str]]:
        r = self.r
        name = f"gen{self.idx}"
        params = []
        nvals = r.randint(1, 4)
        for i in range(nvals):
            kind = self.pick(KINDS)
            owned = self.chance(0.75) or kind in ("cd",)
            wrap = self.pick(["", "", "box", "pair"])
            v = V(f"v{i}", kind, owned, wrap)
            self.vars.append(v)
            own_s = " @owned" if owned and kind in ("d", "l") or (owned and wrap == "" and kind in ("d", "l")) else ""
            # copyable kinds need no @owned to be moved around
            if kind in ("cd", "c"):
                own_s = ""
                v.owned = True
            elif not owned:
                own_s = ""
            else:
                own_s = " @owned"
            params.append(f"{v.name}: {v.ty()}{own_s}")
        extra = []
        self.param_order = [v.name for v in self.vars]
        if self.chance(0.4):
            params.append("xs: array[TCD, n]")
            extra.append("arr_n")
            self.param_order.append("xs")
        # comptime parameters go to a random position (in front of a type variable's first use they
        # shift its index under partial monomorphisation)
        if self.chance(0.35):
            pos = self.r.randint(0, len(params))
            params.insert(pos, "kc: int @comptime")
            self.param_order.insert(pos, "kc")
            extra.append("comptime_int")
        if self.chance(0.3):
            pos = self.r.randint(0, len(params))
            params.insert(pos, "nn: nat @comptime")
            self.param_order.insert(pos, "nn")
            extra.append("comptime_nat")
        params += ["b0: bool", "b1: bool", "k0: int"]
        self.cls = {"b0": "bool", "b1": "bool", "k0": "int"}
        if "comptime_int" in extra:
            self.cls["kc"] = "int"
        L = self.lines.append
        if self.chance(0.35):
            # a (non-capturing) nested function inside a generic / comptime-parametrised parent: it is
            # lowered once per monomorphisation of the parent
            L("    def helper(h0: int) -> int:")
            L("        if h0 > 2:")
            L("            return h0 - 1")
            L("        return h0 + 1")
            L("    a0 = helper(3)")
            self.kinds.append("nested-def")
        else:
            L("    a0 = 3")
        L("    z0 = 2.5")
        self.cls["a0"] = "int"
        self.cls["z0"] = "float"
        if "arr_n" in extra:
            L("    a1 = len(xs)")
            self.cls["a1"] = "int"
        live = list(self.vars)
        self.block("    ", live, self.cls, 0)
        # a final branch whose arms need different classical variables (tuple-sum block outputs)
        L(f"    if {self.cexpr('bool')}:")
        L(f"        r0 = {self.cexpr('float')}")
        L("    else:")
        L(f"        r0 = float({self.cexpr('int')})")
        # return: every owned non-droppable value still live must be handed back
        rets, rtys = [], []
        for v in self.vars:
            if not v.owned:
                continue
            if v in live and (not v.droppable or self.chance(0.6)):
                rets.append(v.name)
                rtys.append(v.ty())
            # a non-droppable owned value that is no longer live cannot happen (kill needs droppable)
        rets.append("r0")
        rtys.append("float")
        L(f"    return {', '.join(rets)}" + ("," if len(rets) == 1 else ""))
        sig = f"def {name}({', '.join(params)}) -> tuple[{', '.join(rtys)}]:"
        text = "@guppy\n" + sig + "\n" + "\n".join(self.lines) + "\n\n"
        return name, text, self.vars, extra


CONCRETE = {"cd": ["int", "float", "tuple[int, bool]", "None"], "d": ["array[int, 2]"], "l": ["qubit"]}


def mk_value(ty: str) -> str:
    return {"int": "7", "float": "1.5", "tuple[int, bool]": "(4, True)", "array[int, 2]": "array(1, 2)",
            "qubit": "qubit()", "None": "None"}[ty]


def consume(ty: str, e: str, ind: str) -> list[str]:
    if ty == "qubit":
        return [f"{ind}discard({e})"]
    return [f"{ind}pass"]


def generate(rng: random.Random) -> tuple[str, str | None, list[str]]:
    """-> (module text, fingerprint | None, names of generic functions + mains)"""
    nf = rng.randint(1, 3)
    text = [HEADER]
    names = []
    main_ids: list[int] = []
    kinds: list[str] = []
    for i in range(nf):
        fg = FnGen(rng, i)
        name, ftxt, vs, extra = fg.generate()
        porder = fg.param_order
        text.append(ftxt)
        kinds += fg.kinds
        if not ({"comptime_int", "comptime_nat"} & set(extra)):
            names.append(name)
        # a concrete caller when only cd / d kinds are involved: no concrete type has the 'c' bound,
        # and linear results would have to be consumed by result-tuple position
        if all(v.kind in ("cd", "d") for v in vs):
            conc = {k: rng.choice(CONCRETE[k]) for k in ("cd", "d")}
            ml = [f"@guppy\ndef main{i}() -> None:"]
            argv = {}
            for v in vs:
                val = mk_value(conc[v.kind])
                if v.wrap == "box":
                    val = f"{BOX[v.kind]}({val}, 1)"
                elif v.wrap == "pair":
                    val = f"({val}, 1)"
                ml.append(f"    {v.name} = {val}")
                argv[v.name] = v.name
            if "arr_n" in extra:
                ml.append(f"    xs = array({', '.join(mk_value(conc['cd']) for _ in range(rng.randint(1, 3)))})")
                argv["xs"] = "xs"
            if "comptime_int" in extra:
                argv["kc"] = str(rng.randint(-3, 9))
            if "comptime_nat" in extra:
                argv["nn"] = str(rng.randint(0, 5))
            tail = ["True", "False", "2"]
            ml.append(f"    out = {name}({', '.join([argv[p_] for p_ in porder] + tail)})")
            if {"comptime_int", "comptime_nat"} & set(extra) and all(v.kind == "cd" for v in vs):
                # a second monomorphisation of the same function (different comptime values)
                argv2 = dict(argv)
                if "comptime_int" in extra:
                    argv2["kc"] = str(int(argv["kc"]) + 11)
                if "comptime_nat" in extra:
                    argv2["nn"] = str(int(argv["nn"]) + 7)
                if "arr_n" in extra:
                    ml.append(f"    xs2 = array({', '.join(mk_value(conc['cd']) for _ in range(rng.randint(1, 3)))})")
                    argv2["xs"] = "xs2"
                ml.append(f"    out2 = {name}({', '.join([argv2[p_] for p_ in porder] + tail)})")
            main_ids.append(i)
            text.append("\n".join(ml) + "\n\n")
            names.append(f"main{i}")
    if len(main_ids) >= 2:
        # all of them in one module / one compile: drop insertion and type-bound handling see generic
        # functions with *different* bounds at the same parameter index
        order = list(main_ids)
        rng.shuffle(order)
        text.append("@guppy\ndef main_all() -> None:\n" + "\n".join(f"    main{j}()" for j in order) + "\n\n")
        names.append("main_all")
    # direct calls of the declared generic helpers at concrete types, incl. T := None
    if rng.random() < 0.5:
        ml = ["@guppy", "def main_direct() -> None:"]
        for j in range(rng.randint(1, 4)):
            ct = rng.choice(CONCRETE["cd"])
            ml.append(f"    d{j} = {rng.choice(['id_cd', 'id_cd', 'peek_cd', 'eat_cd'])}({mk_value(ct)})")
        if rng.random() < 0.5:
            ml.append("    e0 = id_d(array(1, 2))")
            ml.append("    e1 = peek_d(e0)")
        text.append("\n".join(ml) + "\n\n")
        names.append("main_direct")
        kinds.append("direct-calls")
    # a function monomorphised at several comptime values in one compile, with a nested function
    if rng.random() < 0.4:
        nested = rng.random() < 0.7
        body = ["@guppy", "def mono(x: int, kc: int @comptime, flag: bool @comptime, y: TCD) -> tuple[int, TCD]:"]
        if nested:
            # (the nested function does not mention the parent's comptime parameters: /repo does not
            # make them visible inside nested functions)
            body += ["    def helper(h0: int) -> int:", "        if h0 > 2:", "            return h0 - 1",
                     "        return h0 + 1"] if rng.random() < 0.5 else \
                    ["    def helper(h0: int) -> int:", "        return h0 * 2 + 1"]
        body.append(f"    r = {'helper(x)' if nested else 'x'} + kc * {rng.randint(1, 5)}")
        body += ["    if flag:", "        r += 100", "    return r, y", ""]
        text.append("\n".join(body) + "\n")
        vals = [(rng.randint(0, 9), rng.choice(["True", "False"])) for _ in range(rng.randint(2, 4))]
        ml = ["@guppy", "def main_mono() -> None:"]
        for j, (kv, fv) in enumerate(vals):
            ml.append(f"    m{j} = mono({j}, {kv}, {fv}, {mk_value(rng.choice(CONCRETE['cd']))})")
        text.append("\n".join(ml) + "\n\n")
        names.append("main_mono")
        kinds.append("multi-mono" + ("-nested" if nested else ""))
    full = "".join(text)
    fp = hashlib.sha1(" ".join(kinds).encode()).hexdigest()[:16] if any(k.startswith(("if", "while")) for k in kinds) else None
    return full, fp, names
