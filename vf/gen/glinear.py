"""G-linear + O-lin: generator of the *core linear fragment* over qubit variables, struct fields and
tuples (alloc, borrow, consume, move, (re)assign, return, if/while, break/continue, owned and
borrowed parameters) and a path-exact reference model of the ownership rules.

Programs are built from a small IR; O-lin interprets that IR as a collecting semantics over sets of
ownership states (leaf place -> Owned / NotOwned), so accept/reject is decided path-exactly and
independently of /repo's CFG-based algorithm."""
from __future__ import annotations

import hashlib
import random
from dataclasses import dataclass, field
from typing import Any

HEADER = (
    "from guppylang import guppy\n"
    "from guppylang.std.builtins import owned, result\n"
    "from guppylang.std.quantum import qubit, h, cx, measure, discard\n\n"
    "@guppy.struct\nclass QP:\n    a: qubit\n    b: qubit\n\n"
    "@guppy.declare\ndef own(q: qubit @owned) -> None: ...\n\n"
    "@guppy.declare\ndef bor(q: qubit) -> None: ...\n\n"
    "@guppy.declare\ndef bor2(q: qubit, r: qubit) -> None: ...\n\n"
    "@guppy.declare\ndef mk() -> qubit: ...\n\n"
    "@guppy.declare\ndef own_pair(p: QP @owned) -> None: ...\n\n"
    "@guppy.declare\ndef bor_pair(p: QP) -> None: ...\n\n"
)

# places: ("v", name) qubit variable | ("f", structvar, field) | ("t", tuplevar, idx)
Place = tuple


def pl(p: Place) -> str:
    if p[0] == "v":
        return p[1]
    if p[0] == "f":
        return f"{p[1]}.{p[2]}"
    return f"{p[1]}[{p[2]}]"


def root(p: Place) -> str:
    return p[1]


@dataclass
class Fn:
    name: str
    params: list[tuple[str, str, bool]]  # (name, 'qubit'|'QP', owned)
    nconds: int
    ret: str  # 'qubit' | 'none'
    qvars: list[str]  # local qubit variables (initialised at entry)
    svars: list[str]  # local struct variables (initialised at entry)
    tvars: list[str]  # local tuple variables (initialised at entry)
    body: list[Any] = field(default_factory=list)

    def leaves(self) -> list[Place]:
        out: list[Place] = []
        for n, k, _ in self.params:
            out += [("v", n)] if k == "qubit" else [("f", n, "a"), ("f", n, "b")]
        out += [("v", v) for v in self.qvars]
        for s in self.svars:
            out += [("f", s, "a"), ("f", s, "b")]
        for t in self.tvars:
            out += [("t", t, 0), ("t", t, 1)]
        return out

    def borrowed_roots(self) -> set[str]:
        return {n for n, _, o in self.params if not o}

    def struct_roots(self) -> list[str]:
        return [n for n, k, _ in self.params if k == "QP"] + list(self.svars)


# ------------------------------------------------------------------------------------- rendering
def render_cond(c) -> str:
    if c[0] == "c":
        return f"c{c[1]}"
    if c[0] == "notc":
        return f"not c{c[1]}"
    if c[0] == "measure":
        return f"measure({pl(c[1])})"
    raise AssertionError(c)


def render_block(stmts, ind: str, out: list[str]) -> None:
    if not stmts:
        out.append(f"{ind}pass")
        return
    for s in stmts:
        k = s[0]
        if k == "alloc":
            out.append(f"{ind}{pl(s[1])} = {'mk()' if s[2] else 'qubit()'}")
        elif k == "borrow":
            fn = {1: "bor" if s[2] else "h", 2: "bor2" if s[2] else "cx"}[len(s[1])]
            out.append(f"{ind}{fn}({', '.join(pl(p) for p in s[1])})")
        elif k == "consume":
            out.append(f"{ind}{'own' if s[2] else 'discard'}({pl(s[1])})")
        elif k == "measure":
            out.append(f"{ind}{s[1]} = measure({pl(s[2])})")
        elif k == "move":
            out.append(f"{ind}{pl(s[1])} = {pl(s[2])}")
        elif k == "mkstruct":
            out.append(f"{ind}{s[1]} = QP({pl(s[2])}, {pl(s[3])})")
        elif k == "mktuple":
            out.append(f"{ind}{s[1]} = ({pl(s[2])}, {pl(s[3])})")
        elif k == "alloctuple":
            out.append(f"{ind}{s[1]} = (qubit(), qubit())")
        elif k == "allocstruct":
            out.append(f"{ind}{s[1]} = QP(qubit(), qubit())")
        elif k == "unpack":
            out.append(f"{ind}{pl(s[1])}, {pl(s[2])} = {s[3]}")
        elif k == "ownpair":
            out.append(f"{ind}own_pair({s[1]})")
        elif k == "borpair":
            out.append(f"{ind}bor_pair({s[1]})")
        elif k == "if":
            out.append(f"{ind}if {render_cond(s[1])}:")
            render_block(s[2], ind + "    ", out)
            if s[3] is not None:
                out.append(f"{ind}else:")
                render_block(s[3], ind + "    ", out)
        elif k == "while":
            out.append(f"{ind}while {render_cond(s[1])}:")
            render_block(s[2], ind + "    ", out)
        elif k == "break":
            out.append(f"{ind}break")
        elif k == "continue":
            out.append(f"{ind}continue")
        elif k == "return":
            if s[1] is None:
                out.append(f"{ind}return")
            elif s[1] == "fresh":
                out.append(f"{ind}return qubit()")
            else:
                out.append(f"{ind}return {pl(s[1])}")
        else:
            raise AssertionError(s)


def render(fn: Fn) -> str:
    ps = [f"{n}: {k}" + (" @owned" if o else "") for n, k, o in fn.params]
    ps += [f"c{i}: bool" for i in range(fn.nconds)]
    out = [f"@guppy\ndef {fn.name}({', '.join(ps)}) -> {'qubit' if fn.ret == 'qubit' else 'None'}:"]
    for v in fn.qvars:
        out.append(f"    {v} = qubit()")
    for s in fn.svars:
        out.append(f"    {s} = QP(qubit(), qubit())")
    for t in fn.tvars:
        out.append(f"    {t} = (qubit(), qubit())")
    render_block(fn.body, "    ", out)
    return HEADER + "\n".join(out) + "\n"


# ----------------------------------------------------------------------------------------- O-lin
class Reject(Exception):
    def __init__(self, rule: str):
        super().__init__(rule)
        self.rule = rule


class OLin:
    """Collecting semantics. A state is a frozenset of Owned leaves (everything else NotOwned)."""

    def __init__(self, fn: Fn):
        self.fn = fn
        self.borrowed = fn.borrowed_roots()
        self.all_leaves = fn.leaves()
        self.struct_roots = set(fn.struct_roots())
        self.tuple_roots = set(fn.tvars)
        self.returns: set[frozenset] = set()

    def init_state(self) -> frozenset:
        return frozenset(self.all_leaves)  # params and initialised locals all start Owned

    # helpers operate on a single state and raise Reject
    def _need(self, st: frozenset, p: Place) -> None:
        if p not in st:
            raise Reject("use-not-owned")

    def _no_borrowed(self, p: Place, rule: str) -> None:
        # A borrowed *variable* may not be consumed (guppy: NotOwnedError).  A field of a borrowed
        # struct is an ordinary linear leaf: it may be moved out provided it is owned again at every
        # exit (at_exit: borrowed-not-returned; guppy: BorrowSubPlaceUsedError) — "borrowed arguments
        # ... are handed back".  The model used to reject every consumption below a borrowed root;
        # the thorough tier produced `p0.a = p0.a` on a borrowed p0, which guppy rightly accepts.
        if p[0] == "v" and root(p) in self.borrowed:
            raise Reject(rule)

    def _leaves_of(self, r: str) -> list[Place]:
        if r in self.struct_roots:
            return [("f", r, "a"), ("f", r, "b")]
        if r in self.tuple_roots:
            return [("t", r, 0), ("t", r, 1)]
        return [("v", r)]

    def _assign_leaf(self, st: frozenset, p: Place) -> frozenset:
        if p[0] == "v" and root(p) in self.borrowed:
            raise Reject("shadow-borrowed")
        if p in st:
            raise Reject("overwrite-leaks")
        return st | {p}

    def step(self, st: frozenset, s) -> frozenset:
        k = s[0]
        if k == "alloc":
            return self._assign_leaf(st, s[1])
        if k == "borrow":
            ps = s[1]
            if len(set(ps)) != len(ps):
                raise Reject("borrowed-twice")
            for p in ps:
                self._need(st, p)
            return st
        if k == "consume":
            self._need(st, s[1])
            self._no_borrowed(s[1], "consume-borrowed")
            return st - {s[1]}
        if k == "measure":
            self._need(st, s[2])
            self._no_borrowed(s[2], "consume-borrowed")
            return st - {s[2]}
        if k == "move":
            dst, src = s[1], s[2]
            self._need(st, src)
            self._no_borrowed(src, "consume-borrowed")
            if dst == src:
                # `q = q`: consumed then re-bound — fine in guppy too (move then assign)
                return st
            st = st - {src}
            return self._assign_leaf(st, dst)
        if k in ("mkstruct", "mktuple"):
            var, a, b = s[1], s[2], s[3]
            if a == b:
                self._need(st, a)
                raise Reject("use-not-owned")  # second use of the same place
            for p in (a, b):
                self._need(st, p)
                self._no_borrowed(p, "consume-borrowed")
            st = st - {a, b}
            if var in self.borrowed:
                raise Reject("shadow-borrowed")
            for lf in self._leaves_of(var):
                if lf in st:
                    raise Reject("overwrite-leaks")
            return st | set(self._leaves_of(var))
        if k in ("alloctuple", "allocstruct"):
            if s[1] in self.borrowed:
                raise Reject("shadow-borrowed")
            for lf in self._leaves_of(s[1]):
                if lf in st:
                    raise Reject("overwrite-leaks")
            return st | set(self._leaves_of(s[1]))
        if k == "unpack":
            a, b, tv = s[1], s[2], s[3]
            for lf in self._leaves_of(tv):
                self._need(st, lf)
            st = st - set(self._leaves_of(tv))
            st = self._assign_leaf(st, a)
            if a == b:
                raise Reject("overwrite-leaks")
            return self._assign_leaf(st, b)
        if k == "ownpair":
            for lf in self._leaves_of(s[1]):
                self._need(st, lf)
            if s[1] in self.borrowed:
                raise Reject("consume-borrowed")
            return st - set(self._leaves_of(s[1]))
        if k == "borpair":
            for lf in self._leaves_of(s[1]):
                self._need(st, lf)
            return st
        raise AssertionError(s)

    def at_exit(self, st: frozenset) -> None:
        for lf in self.all_leaves:
            if root(lf) in self.borrowed:
                if lf not in st:
                    raise Reject("borrowed-not-returned")
            elif lf in st:
                raise Reject("leak-at-exit")

    def cond(self, states: set[frozenset], c) -> set[frozenset]:
        if c[0] == "measure":
            out = set()
            for st in states:
                self._need(st, c[1])
                self._no_borrowed(c[1], "consume-borrowed")
                out.add(st - {c[1]})
            return out
        return set(states)

    def block(self, states: set[frozenset], stmts, loop):
        """Returns fall-through states; `loop` = [break_states, continue_states] or None."""
        cur = set(states)
        for s in stmts:
            if not cur:
                # dead code in this fragment is not generated; if a mutation creates it guppy still
                # checks it, which this model does not follow -> caller marks the case unmodelled
                raise Unmodelled("dead-code")
            k = s[0]
            if k == "if":
                c = self.cond(cur, s[1])
                a = self.block(c, s[2], loop)
                b = self.block(c, s[3], loop) if s[3] is not None else set(c)
                cur = a | b
            elif k == "while":
                seen: set[frozenset] = set()
                head = set(cur)
                exits: set[frozenset] = set()
                while True:
                    new = head - seen
                    if not new:
                        break
                    seen |= new
                    after_cond = self.cond(new, s[1])
                    exits |= after_cond  # condition false: leave (the consumed cond operand is gone)
                    lp = [set(), set()]
                    ft = self.block(after_cond, s[2], lp)
                    exits |= lp[0]
                    head = ft | lp[1]
                cur = exits
            elif k == "break":
                if loop is None:
                    raise Unmodelled("break-outside-loop")
                loop[0] |= cur
                cur = set()
            elif k == "continue":
                if loop is None:
                    raise Unmodelled("continue-outside-loop")
                loop[1] |= cur
                cur = set()
            elif k == "return":
                for st in cur:
                    if s[1] is None:
                        if self.fn.ret == "qubit":
                            raise Unmodelled("return-type")
                    elif s[1] == "fresh":
                        if self.fn.ret != "qubit":
                            raise Unmodelled("return-type")
                    else:
                        if self.fn.ret != "qubit":
                            raise Unmodelled("return-type")
                        self._need(st, s[1])
                        self._no_borrowed(s[1], "consume-borrowed")
                        st = st - {s[1]}
                    self.at_exit(st)
                cur = set()
            else:
                cur = {self.step(st, s) for st in cur}
        return cur

    def run(self) -> str | None:
        """None = accepted, else the violated rule class."""
        try:
            end = self.block({self.init_state()}, self.fn.body, None)
            if end:
                if self.fn.ret == "qubit":
                    raise Unmodelled("missing-return")
                for st in end:
                    self.at_exit(st)
        except Reject as r:
            return r.rule
        return None


class Unmodelled(Exception):
    pass


# ------------------------------------------------------------------------------------- generator
class LinGen:
    """Correct-by-construction generator: tracks the definite Owned set, reconciles at joins."""

    def __init__(self, rng: random.Random):
        self.r = rng
        self.budget = 0

    def make_fn(self) -> Fn:
        r = self.r
        params = []
        for i in range(r.randint(0, 3)):
            kind = "QP" if r.random() < 0.25 else "qubit"
            params.append((f"p{i}", kind, r.random() < 0.5))
        fn = Fn(
            name="main", params=params, nconds=3, ret=r.choice(["qubit", "none", "none"]),
            qvars=[f"q{i}" for i in range(r.randint(1, 3))],
            svars=["s0"] if r.random() < 0.5 else [],
            tvars=["t0"] if r.random() < 0.3 else [],
        )
        self.fn = fn
        self.borrowed = fn.borrowed_roots()
        self.budget = r.randint(4, 14)
        owned = set(fn.leaves())
        body, owned = self.gen_block(owned, depth=0, in_loop=False)
        # epilogue: bring to exit state
        if owned is not None:
            body += self.settle(owned, self.exit_target(owned))
            if fn.ret == "qubit":
                body.append(("return", "fresh"))
        fn.body = body
        return fn

    def movable(self, owned: set) -> list[Place]:
        # fields of a borrowed struct may be moved out (and are put back by `settle` / later statements)
        return [p for p in owned if not (p[0] == "v" and root(p) in self.borrowed)]

    def exit_target(self, owned: set) -> set:
        return {lf for lf in self.fn.leaves() if root(lf) in self.borrowed}

    def settle(self, owned: set, target: set) -> list:
        """Statements turning the definite state `owned` into `target`."""
        out = []
        owned = set(owned)
        # tuple elements cannot be assigned individually (unsupported syntax): rebuild the tuple
        for t in self.fn.tvars:
            lv = self._leaves(t)
            if any(lf in target and lf not in owned for lf in lv):
                for lf in lv:
                    if lf in owned:
                        out.append(("consume", lf, self.r.random() < 0.5))
                        owned.discard(lf)
                out.append(("alloctuple", t))
                owned |= set(lv)
        for p in sorted(owned - target):
            out.append(("consume", p, self.r.random() < 0.5))
        for p in sorted(target - owned):
            out.append(("alloc", p, self.r.random() < 0.3))
        return out

    def gen_block(self, owned: set, depth: int, in_loop: bool, loop_entry: set | None = None):
        r = self.r
        out = []
        n = r.randint(1, 4)
        for _ in range(n):
            if self.budget <= 0:
                break
            self.budget -= 1
            owned = set(owned)
            choice = r.random()
            leaves = self.fn.leaves()
            own_l = sorted(owned)
            mov = sorted(self.movable(owned))
            free = sorted(p for p in leaves if p not in owned and p[0] != "t"
                          and not (p[0] == "v" and root(p) in self.borrowed))
            if choice < 0.2 and own_l:
                k = 2 if len(own_l) >= 2 and r.random() < 0.4 else 1
                out.append(("borrow", r.sample(own_l, k), r.random() < 0.5))
            elif choice < 0.35 and mov:
                p = r.choice(mov)
                if r.random() < 0.3:
                    out.append(("measure", f"b{r.randint(0, 2)}", p))
                else:
                    out.append(("consume", p, r.random() < 0.5))
                owned.discard(p)
            elif choice < 0.5 and free:
                p = r.choice(free)
                out.append(("alloc", p, r.random() < 0.3))
                owned.add(p)
            elif choice < 0.58 and mov and free:
                src, dst = r.choice(mov), r.choice(free)
                out.append(("move", dst, src))
                owned.discard(src)
                owned.add(dst)
            elif choice < 0.66 and len(mov) >= 2:
                # build a struct/tuple out of two movable places if a container is free
                conts = [s for s in self.fn.svars + self.fn.tvars
                         if not any(lf in owned for lf in self._leaves(s))]
                if conts:
                    c = r.choice(conts)
                    a, b = r.sample([p for p in mov], 2)
                    out.append(("mkstruct" if c in self.fn.svars else "mktuple", c, a, b))
                    owned -= {a, b}
                    owned |= set(self._leaves(c))
            elif choice < 0.72:
                ts = [t for t in self.fn.tvars if all(lf in owned for lf in self._leaves(t))]
                fv = [p for p in free if p[0] == "v"]
                if ts and len(fv) >= 2:
                    t = r.choice(ts)
                    a, b = r.sample(fv, 2)
                    out.append(("unpack", a, b, t))
                    owned -= set(self._leaves(t))
                    owned |= {a, b}
            elif choice < 0.78:
                ss = [s for s in self.fn.struct_roots() if all(lf in owned for lf in self._leaves(s))]
                if ss:
                    s = r.choice(ss)
                    if s not in self.borrowed and r.random() < 0.5:
                        out.append(("ownpair", s))
                        owned -= set(self._leaves(s))
                    else:
                        out.append(("borpair", s))
            elif choice < 0.9 and depth < 3:
                cond = self.gen_cond(owned)
                base = set(owned)
                if cond[0] == "measure":
                    base.discard(cond[1])
                a, oa = self.gen_block(base, depth + 1, in_loop, loop_entry)
                if r.random() < 0.7:
                    b, ob = self.gen_block(base, depth + 1, in_loop, loop_entry)
                else:
                    b, ob = None, set(base)
                # reconcile: both sides to a common target
                a_live = oa is not None
                b_live = ob is not None
                if a_live and b_live:
                    target = (oa & ob) | {p for p in (oa | ob) if root(p) in self.borrowed}
                    a = a + self.settle(oa, target)
                    if b is None:
                        fix = self.settle(ob, target)
                        b = fix if fix else None
                    else:
                        b = b + self.settle(ob, target)
                    owned = target
                elif a_live:
                    owned = oa
                elif b_live:
                    owned = ob
                else:
                    out.append(("if", cond, a, b))
                    return out, None
                out.append(("if", cond, a, b))
            elif choice < 0.97 and depth < 3:
                cond = self.gen_cond(owned, allow_measure=False)
                entry = set(owned)
                body, ob = self.gen_block(set(entry), depth + 1, True, entry)
                if ob is not None:
                    body = body + self.settle(ob, entry)
                out.append(("while", cond, body))
                owned = entry
            elif in_loop and loop_entry is not None and r.random() < 0.5:
                out += self.settle(owned, loop_entry)
                out.append((r.choice(["break", "continue"]),))
                return out, None
            elif depth > 0 and r.random() < 0.3:
                tgt = self.exit_target(owned)
                if self.fn.ret == "qubit":
                    mov2 = sorted(self.movable(owned))
                    if mov2 and r.random() < 0.6:
                        p = r.choice(mov2)
                        o2 = set(owned)
                        o2.discard(p)
                        out += self.settle(o2, tgt)
                        out.append(("return", p))
                    else:
                        out += self.settle(owned, tgt)
                        out.append(("return", "fresh"))
                else:
                    out += self.settle(owned, tgt)
                    out.append(("return", None))
                return out, None
        return out, owned

    def _leaves(self, r: str) -> list[Place]:
        if r in self.fn.struct_roots():
            return [("f", r, "a"), ("f", r, "b")]
        if r in self.fn.tvars:
            return [("t", r, 0), ("t", r, 1)]
        return [("v", r)]

    def gen_cond(self, owned: set, allow_measure: bool = True):
        r = self.r
        mov = sorted(self.movable(owned))
        if allow_measure and mov and r.random() < 0.2:
            return ("measure", r.choice(mov))
        return (r.choice(["c", "notc"]), r.randrange(3))


# --------------------------------------------------------------------------------------- mutation
def all_blocks(body):
    yield body
    for s in body:
        if s[0] == "if":
            yield from all_blocks(s[2])
            if s[3] is not None:
                yield from all_blocks(s[3])
        elif s[0] == "while":
            yield from all_blocks(s[2])


def mutate(fn: Fn, rng: random.Random) -> str:
    """Apply one random mutation in place; returns its name."""
    blocks = [b for b in all_blocks(fn.body)]
    leaves = fn.leaves()
    kind = rng.choice(["delete", "duplicate", "replace_place", "swap_kind", "guard", "insert_consume",
                       "insert_alloc", "insert_borrow", "insert_move", "insert_alloc_composite"])
    b = rng.choice(blocks)
    simple = [i for i, s in enumerate(b) if s[0] not in ("if", "while", "break", "continue", "return")]
    if kind == "delete" and simple:
        del b[rng.choice(simple)]
    elif kind == "duplicate" and simple:
        i = rng.choice(simple)
        b.insert(i, b[i])
    elif kind == "replace_place" and simple:
        i = rng.choice(simple)
        s = list(b[i])
        np_ = rng.choice(leaves)
        if s[0] in ("alloc", "consume"):
            s[1] = np_
        elif s[0] == "borrow":
            s[1] = [np_] + list(s[1][1:])
        elif s[0] == "measure":
            s[2] = np_
        elif s[0] == "move":
            s[rng.choice([1, 2])] = np_
        b[i] = tuple(s)
    elif kind == "swap_kind" and simple:
        i = rng.choice(simple)
        s = b[i]
        if s[0] == "consume":
            b[i] = ("borrow", [s[1]], s[2])
        elif s[0] == "borrow":
            b[i] = ("consume", s[1][0], s[2])
    elif kind == "guard" and simple:
        i = rng.choice(simple)
        b[i] = ("if", ("c", rng.randrange(3)), [b[i]], None)
    elif kind == "insert_consume":
        b.insert(rng.randint(0, len(b)), ("consume", rng.choice(leaves), rng.random() < 0.5))
    elif kind == "insert_alloc":
        b.insert(rng.randint(0, len(b)), ("alloc", rng.choice(leaves), False))
    elif kind == "insert_borrow":
        k = rng.choice([1, 2])
        b.insert(rng.randint(0, len(b)), ("borrow", [rng.choice(leaves) for _ in range(k)], False))
    elif kind == "insert_move":
        b.insert(rng.randint(0, len(b)), ("move", rng.choice(leaves), rng.choice(leaves)))
    elif kind == "insert_alloc_composite":
        # overwrite a whole struct / tuple (variable or owned parameter) with a fresh one; once or,
        # to hit "assigned and overwritten in the same block", twice in a row
        roots = fn.svars + fn.tvars + [n for n, k, _ in fn.params if k == "QP"]
        if roots:
            rt = rng.choice(roots)
            st = ("alloctuple", rt) if rt in fn.tvars else ("allocstruct", rt)
            i = rng.randint(0, len(b))
            b.insert(i, st)
            if rng.random() < 0.5:
                b.insert(i, st)
    return kind


def ends_in_jump(block) -> bool:
    return bool(block) and block[-1][0] in ("break", "continue", "return")


def has_dead_code(body) -> bool:
    for b in all_blocks(body):
        for i, s in enumerate(b[:-1]):
            if s[0] in ("break", "continue", "return"):
                return True
            if s[0] == "if" and s[3] is not None and _always_jumps(s[2]) and _always_jumps(s[3]):
                return True
    return False


def _always_jumps(block) -> bool:
    if not block:
        return False
    last = block[-1]
    if last[0] in ("break", "continue", "return"):
        return True
    if last[0] == "if" and last[3] is not None:
        return _always_jumps(last[2]) and _always_jumps(last[3])
    return False


def kinds(body, depth=0):
    out = []
    for s in body:
        out.append(f"{depth}{s[0]}")
        if s[0] == "if":
            out += kinds(s[2], depth + 1)
            if s[3] is not None:
                out += kinds(s[3], depth + 1)
        elif s[0] == "while":
            out += kinds(s[2], depth + 1)
    return out


def fingerprint(fn: Fn) -> str | None:
    ks = kinds(fn.body)
    if not any(k.endswith(("if", "while")) for k in ks):
        return None
    sig = repr((fn.params, fn.ret, ks))
    return hashlib.sha1(sig.encode()).hexdigest()[:16]


def generate(rng: random.Random, accept_only: bool = True):
    """(text, fingerprint, fn). accept_only: correct by construction (no mutation)."""
    fn = LinGen(rng).make_fn()
    return render(fn), fingerprint(fn), fn
