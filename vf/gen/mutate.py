"""Near-miss mutation of accepted G-prog programs on the Python AST (C02, C10).

Each mutator takes (tree, rng) and edits the tree in place, returning a short name or None if it
could not be applied.  Only the bodies of @guppy-decorated functions are touched."""
from __future__ import annotations

import ast
import copy
import random

UNSUPPORTED_STMTS = [
    "try:\n    pass\nexcept Exception:\n    pass",
    "try:\n    pass\nfinally:\n    pass",
    "with zz_ctx:\n    pass",
    "global zz_g",
    "del {v}",
    "assert {v} == {v}",
    "raise ValueError()",
    "import os",
    "from os import path",
    "class ZZ:\n    pass",
    "async def zz_a() -> None:\n    pass",
    "match {v}:\n    case _:\n        pass",
    "zz_l = lambda: 1",
    "zz_d = {{1: 2}}",
    "zz_s = {{1, 2}}",
    "zz_f = f\"a{{ {v} }}\"",
    "zz_sl = {v}[1:2]",
    "zz_is = {v} is {v}",
    "zz_in = {v} in ({v},)",
    "zz_p = {v} ** 2",
    "zz_m = {v} @ {v}",
    "zz_e = ...",
    "zz_b = b'ab'",
    "zz_c = 1j",
    "zz_li = [1, 2]",
    "zz_lc = [zz_i for zz_i in range(3)]",
    "zz_ge = (zz_i for zz_i in range(3))",
    "print({v})",
    "zz_st = 'a string'",
    "{v}: int",
    "zz_a = zz_b = 1",
    "zz_t: int = 'x'",
    "while {v} == {v}:\n    pass\nelse:\n    pass",
    "for zz_i in range(2):\n    pass\nelse:\n    pass",
    "for zz_i, zz_j in range(2):\n    pass",
    "zz_u, zz_v = 1",
    "zz_u, zz_v = 1, 2, 3",
    "zz_x = yield",
    "return 1, 2, 3",
    "zz_k = int(x=1)",
    "zz_n = None + 1",
    "zz_w = (zz_q := 1) + zz_q",
    "nonlocal zz_nl",
    "pass; zz_chain = 1 < 'a'",
    "zz_neg = -True",
    "zz_idx = (1, 2)[{v}]",
    "zz_idx2 = (1, 2)[5]",
    "zz_call = {v}()",
    "zz_attr = {v}.nope",
    "zz_big = 123456789012345678901234567890",
    "zz_sub = 1[0]",
    "zz_star = (*{v},)",
    "result(zz_tag, 1)",
    "result('t', result)",
    "zz_r = range(1, 2, 3, 4)",
    "zz_ar = array()",
    "zz_ar2 = array(1, 2.0, True)",
    "zz_len = len(1)",
    "zz_cmp = (1, 2) < (1, 3)",
]

BAD_ANNOTATIONS = [
    "list[int]", "dict[int, int]", "array[int]", "array[int, 2, 3]", "int @owned",
    "tuple", "array", "array[int, -1]", "array[int, 1.5]", "array[2, int]", "'int'",
    "int | float", "None", "42", "tuple[int, ...]", "array[array, 2]", "int @owned @owned",
    "float @comptime", "type", "object", "str", "tuple[()]", "array[int, True]",
]

WRONG_CONSTS = ["1.5", "True", "'s'", "None", "(1, 2)", "7", "array(1, 2)", "-0.0", "()",
                "int", "result", "(1,)", "[1]", "2**70", "1 if True else 2.0"]


def guppy_funcs(tree: ast.Module) -> list[ast.FunctionDef]:
    out = []
    for n in tree.body:
        if isinstance(n, ast.FunctionDef) and n.decorator_list:
            out.append(n)
    return out


def _all_stmt_lists(fn: ast.FunctionDef) -> list[list[ast.stmt]]:
    out = []
    for n in ast.walk(fn):
        for f in ("body", "orelse", "finalbody"):
            b = getattr(n, f, None)
            if isinstance(b, list) and b and isinstance(b[0], ast.stmt):
                out.append(b)
    return out


def _names(fn: ast.FunctionDef, ctx=ast.Load) -> list[ast.Name]:
    return [n for n in ast.walk(fn) if isinstance(n, ast.Name) and isinstance(n.ctx, ctx)]


def _exprs(fn: ast.FunctionDef) -> list[tuple[ast.AST, str, int | None]]:
    """(parent, field, index) slots holding expressions inside the function body."""
    slots = []
    for st in fn.body:
        for node in ast.walk(st):
            for fname, val in ast.iter_fields(node):
                if fname in ("annotation", "returns", "decorator_list", "target", "targets", "ctx"):
                    continue
                if isinstance(val, ast.expr):
                    slots.append((node, fname, None))
                elif isinstance(val, list):
                    for i, x in enumerate(val):
                        if isinstance(x, ast.expr) and fname not in ("targets",):
                            slots.append((node, fname, i))
    return slots


def _set(slot, new) -> None:
    node, f, i = slot
    if i is None:
        setattr(node, f, new)
    else:
        getattr(node, f)[i] = new


def _get(slot):
    node, f, i = slot
    return getattr(node, f) if i is None else getattr(node, f)[i]


def m_wrong_const(tree, rng):
    fn = rng.choice(guppy_funcs(tree))
    slots = _exprs(fn)
    if not slots:
        return None
    _set(rng.choice(slots), ast.parse(rng.choice(WRONG_CONSTS), mode="eval").body)
    return "wrong_const"


def m_delete_assign(tree, rng):
    fn = rng.choice(guppy_funcs(tree))
    cands = [(b, i) for b in _all_stmt_lists(fn) for i, s in enumerate(b)
             if isinstance(s, (ast.Assign, ast.AnnAssign, ast.AugAssign)) and len(b) > 1]
    if not cands:
        return None
    b, i = rng.choice(cands)
    del b[i]
    return "delete_assign"


def m_rename_use(tree, rng):
    fn = rng.choice(guppy_funcs(tree))
    uses = _names(fn)
    if not uses:
        return None
    n = rng.choice(uses)
    others = sorted({x.id for x in _names(fn, ast.Store)} | {a.arg for a in fn.args.args})
    r_ = rng.random()
    if others and r_ < 0.55:
        n.id = rng.choice(others)
    elif r_ < 0.8:
        n.id = "zz_undefined"
    else:
        # names Python's `builtins` module knows but Guppy does not define
        n.id = rng.choice(PY_ONLY_BUILTINS)
    return "rename_use"


PY_ONLY_BUILTINS = ["ValueError", "KeyError", "StopIteration", "NotImplemented", "Ellipsis", "ascii", "quit",
                    "open", "input", "object", "type", "id", "hash", "iter", "next", "sorted", "map", "__name__",
                    "Exception", "memoryview", "globals", "vars"]


def m_python_builtin(tree, rng):
    """A Python-only builtin used as a value, called, or written as an annotation."""
    fn = rng.choice(guppy_funcs(tree))
    b = rng.choice(_all_stmt_lists(fn))
    nm = rng.choice(PY_ONLY_BUILTINS)
    src = rng.choice([f"zz_v = {nm}", f"zz_v = {nm}(1)", f"zz_v: {nm} = 1", f"zz_v = {nm}.x",
                      f"def zz_in(a: {nm}) -> int:\n    return 1", f"zz_v = (1, {nm})", f"{nm}"])
    b[rng.randint(0, len(b)):0] = ast.parse(src).body
    return "python_builtin"


def m_comprehension_scope(tree, rng):
    """Comprehension targets are local to the comprehension: uses after it (same block, later
    block, another comprehension), shadowing of an outer variable, nested generators."""
    fn = rng.choice(guppy_funcs(tree))
    b = rng.choice(_all_stmt_lists(fn))
    outer = sorted({x.id for x in _names(fn, ast.Store)})
    v = rng.choice(["zz_c"] + outer[:3])
    src = rng.choice([
        f"zz_ys = array({v} + 1 for {v} in range(3))\nzz_w = {v}",
        f"zz_ys = array({v} for {v} in range(3))\nzz_zs = array({v} for zz_d in range(2))",
        f"zz_ys = array({v} * zz_d for {v} in range(2) for zz_d in range(2))\nzz_w = zz_d",
        f"zz_ys = array({v} for {v} in range(3))\nif zz_ys[0] == 0:\n    zz_w = {v}",
        f"zz_ys = array(zz_q for {v} in range(3))",
        f"zz_ys = array({v} for {v} in range(3) if {v} > zz_q)",
    ])
    b[rng.randint(0, len(b)):0] = ast.parse(src).body
    return "comprehension_scope"


def m_arity(tree, rng):
    fn = rng.choice(guppy_funcs(tree))
    calls = [n for n in ast.walk(fn) if isinstance(n, ast.Call)]
    if not calls:
        return None
    c = rng.choice(calls)
    k = rng.randrange(4)
    if k == 0 and c.args:
        c.args.pop(rng.randrange(len(c.args)))
    elif k == 1:
        c.args.insert(rng.randint(0, len(c.args)), ast.Constant(value=rng.choice([1, 2.5, True])))
    elif k == 2:
        c.keywords.append(ast.keyword(arg="zz_kw", value=ast.Constant(value=1)))
    else:
        c.args.append(ast.Starred(value=ast.Tuple(elts=[ast.Constant(value=1)], ctx=ast.Load()),
                                  ctx=ast.Load()))
    return "arity"


def m_unsupported(tree, rng):
    fn = rng.choice(guppy_funcs(tree))
    names = sorted({a.arg for a in fn.args.args} | {x.id for x in _names(fn, ast.Store)}) or ["zz"]
    src = rng.choice(UNSUPPORTED_STMTS).format(v=rng.choice(names))
    try:
        new = ast.parse(src).body
    except SyntaxError:
        return None
    b = rng.choice(_all_stmt_lists(fn))
    pos = rng.randint(0, len(b))
    b[pos:pos] = new
    return "unsupported:" + src.split("\n")[0][:24]


def m_annotation(tree, rng):
    fn = rng.choice(guppy_funcs(tree))
    ann = ast.parse(rng.choice(BAD_ANNOTATIONS), mode="eval").body
    k = rng.randrange(4)
    if k == 0 and fn.args.args:
        rng.choice(fn.args.args).annotation = ann
    elif k == 1:
        fn.returns = ann
    elif k == 2 and fn.args.args:
        rng.choice(fn.args.args).annotation = None
    else:
        fn.returns = None
    return "annotation"


def m_swap_operands_types(tree, rng):
    fn = rng.choice(guppy_funcs(tree))
    bins = [n for n in ast.walk(fn) if isinstance(n, (ast.BinOp, ast.Compare, ast.BoolOp))]
    if not bins:
        return None
    n = rng.choice(bins)
    bad = ast.parse(rng.choice(WRONG_CONSTS), mode="eval").body
    if isinstance(n, ast.BinOp):
        if rng.random() < 0.5:
            n.left = bad
        else:
            n.right = bad
    elif isinstance(n, ast.Compare):
        n.comparators[0] = bad
    else:
        n.values[0] = bad
    return "operand_type"


def m_change_op(tree, rng):
    fn = rng.choice(guppy_funcs(tree))
    bins = [n for n in ast.walk(fn) if isinstance(n, ast.BinOp)]
    if not bins:
        return None
    rng.choice(bins).op = rng.choice([ast.MatMult(), ast.Pow(), ast.Div(), ast.LShift(), ast.Mod()])
    return "change_op"


def m_jump(tree, rng):
    fn = rng.choice(guppy_funcs(tree))
    b = rng.choice(_all_stmt_lists(fn))
    st = rng.choice([ast.Break(), ast.Continue(), ast.Return(value=None),
                     ast.Return(value=ast.Constant(value=1.5))])
    b.insert(rng.randint(0, len(b)), st)
    return "jump"


def m_generic_misuse(tree, rng):
    fn = rng.choice(guppy_funcs(tree))
    calls = [n for n in ast.walk(fn) if isinstance(n, ast.Call) and isinstance(n.func, ast.Name)]
    if not calls:
        return None
    c = rng.choice(calls)
    c.func = ast.Subscript(value=c.func, slice=ast.parse(rng.choice(
        ["int", "(int, int)", "3", "zz_T", "array[int, 2]"]), mode="eval").body, ctx=ast.Load())
    return "generic_apply"


def m_nested_capture(tree, rng):
    fn = rng.choice(guppy_funcs(tree))
    names = sorted({x.id for x in _names(fn, ast.Store)}) or ["zz"]
    v = rng.choice(names)
    src = rng.choice([
        f"def zz_in() -> int:\n    return {v}",
        f"def zz_in(a: int) -> int:\n    {v} = a\n    return {v}",
        "def zz_in(a):\n    return a",
        "def zz_in(a: int = 3) -> int:\n    return a",
        "def zz_in(*a: int) -> int:\n    return 1",
        "def zz_in(a: int) -> int:\n    return zz_in(a)",
        f"def zz_in() -> None:\n    def zz_in2() -> int:\n        return {v}\n    zz_in2()",
    ])
    b = rng.choice(_all_stmt_lists(fn))
    pos = rng.randint(0, len(b))
    b[pos:pos] = ast.parse(src).body + ast.parse("zz_r = zz_in").body
    return "nested_def"


MUTATORS = [m_wrong_const, m_wrong_const, m_delete_assign, m_delete_assign, m_rename_use,
            m_rename_use, m_arity, m_unsupported, m_unsupported, m_unsupported, m_annotation,
            m_swap_operands_types, m_swap_operands_types, m_change_op, m_jump, m_generic_misuse,
            m_nested_capture, m_python_builtin, m_python_builtin, m_comprehension_scope, m_comprehension_scope]


def mutate_text(text: str, rng: random.Random, n: int = 1, non_ascii: bool = False):
    """Returns (new_text, [mutation names]); new_text is syntactically valid Python."""
    tree = ast.parse(text)
    names = []
    for _ in range(n):
        for _try in range(5):
            m = rng.choice(MUTATORS)
            t2 = copy.deepcopy(tree)
            try:
                nm = m(t2, rng)
            except (IndexError, ValueError):
                nm = None
            if nm is None:
                continue
            try:
                ast.fix_missing_locations(t2)
                src = ast.unparse(t2)
                ast.parse(src)
            except (SyntaxError, ValueError, TypeError, AttributeError):
                continue
            tree = t2
            names.append(nm)
            break
    src = ast.unparse(tree)
    if non_ascii:
        lines = src.split("\n")
        for i in range(len(lines)):
            if lines[i].strip() and not lines[i].strip().startswith(("@", "def ", "class ", "from ", "import ")) \
                    and rng.random() < 0.3:
                lines[i] += "  # ünïcödé ✓ 量子"
        src = "\n".join(lines).replace('result(\'r', "result('ŕé量")
        names.append("non_ascii")
    return src + "\n", names
