"""`./check <ID> [--tier quick|thorough] [--seed N] [--replay path]`, `./check selftest`."""
from __future__ import annotations

import argparse
import os
import subprocess
import sys
from pathlib import Path

ROOT = Path(__file__).resolve().parent.parent


def selftest() -> int:
    """Adapter calibration: /repo's own tests against /repo's sources through adapter+lowering."""
    allow = (ROOT / "vf" / "selftest_allow.txt").read_text().split("\n")
    deselect = []
    for line in allow:
        line = line.split("#")[0].strip()
        if line:
            deselect += ["--deselect", line]
    env = dict(os.environ, PYTHONPATH=str(ROOT), PYTHONDONTWRITEBYTECODE="1")
    cmd = ["/venv/bin/python", "-m", "pytest", "-p", "vf.selftest_plugin", "-p", "no:cacheprovider",
           "-n", "16", "tests", "-q", "--timeout=600", *deselect]
    return subprocess.run(cmd, cwd=os.environ.get("VF_REPO_ROOT", "/repo"), env=env).returncode


def main() -> int:
    ap = argparse.ArgumentParser()
    ap.add_argument("prop")
    ap.add_argument("--tier", default=os.environ.get("VERIF_TIER", "quick"),
                    choices=["quick", "thorough"])
    ap.add_argument("--seed", type=int, default=int(os.environ.get("VERIF_SEED", "0")))
    ap.add_argument("--replay")
    a = ap.parse_args()
    if a.prop == "selftest":
        return selftest()
    from vf import core

    pid = a.prop.upper()
    if a.replay:
        return core.run_replay(pid, a.replay)
    return core.run_check(pid, a.tier, a.seed)


if __name__ == "__main__":
    sys.exit(main())
