"""pytest plugin for `vf selftest`: run /repo's own tests against /repo's sources through the
adapter and lowering (DESIGN.md 1.4)."""
import sys

if "/verif" not in sys.path:
    sys.path.insert(0, "/verif")
from vf.compat import adapter  # noqa: E402

adapter.boot()
from vf.compat import execsub  # noqa: E402

execsub.patch_for_selftest()
