"""Bool lowering for execution (DESIGN.md 1.3).

/repo (guppylang 0.21.6) emits the opaque `tket.bool` type and `MeasureFree: qubit -> tket.bool`.
The installed QIS compiler (selene-hugr-qis-compiler 0.4.3) knows neither.  After `compile()` and
before handing a package to selene / the second validator we rewrite the compiler's *output* on the
`hugr.model` AST:

    tket.bool.bool                     -> core.adt [[] []]
    tket.bool.read / make_opaque       -> prelude.Noop(Bool)
    tket.bool.and/or/xor/eq/not        -> logic.And/Or/Xor/Eq/Not
    ConstBool(v)                       -> core.const.adt [[] []] [] tag (tuple)
    MeasureFree: qubit -> bool         -> MeasureFree: qubit -> Measurement ; tket.measurement.Read

and re-pack the envelope with the pristine installed extension definitions.
"""
from __future__ import annotations

import dataclasses
import json
from typing import Any

import hugr.model as hm
from hugr.envelope import EnvelopeConfig

BOOL_ADT = hm.Apply("core.adt", [hm.List([hm.List([]), hm.List([])])])


class LoweringError(Exception):
    """Raised for anything that goes wrong inside lowering; classified harness_error."""


def _sym(s: str) -> str:
    return s.split("@", 1)[0]


def _versions() -> dict[str, str]:
    import hugr.std.logic as L
    import hugr.std.prelude as P
    import tket_exts

    return {
        "logic": str(L.EXTENSION.version),
        "prelude": str(P.PRELUDE_EXTENSION.version),
        "tket.measurement": str(tket_exts.measurement().version),
    }


_V: dict[str, str] | None = None


def _v(ext: str) -> str:
    global _V
    if _V is None:
        _V = _versions()
    return _V[ext]


_LOGIC = {"and": "And", "or": "Or", "xor": "Xor", "eq": "Eq", "not": "Not"}


def _map_term(t: Any) -> Any:
    """Uniform bottom-up walk over model terms."""
    if isinstance(t, hm.Apply):
        name = _sym(t.symbol)
        if name == "tket.bool.bool":
            return BOOL_ADT
        if name == "compat.const_json" and len(t.args) == 2:
            ty, lit = t.args
            if isinstance(ty, hm.Apply) and _sym(ty.symbol) == "tket.bool.bool":
                payload = json.loads(lit.value)
                if payload.get("c") != "ConstBool":
                    raise LoweringError(f"unknown tket.bool const {payload!r}")
                tag = 1 if payload["v"] else 0
                return hm.Apply(
                    "core.const.adt",
                    [
                        hm.List([hm.List([]), hm.List([])]),
                        hm.List([]),
                        hm.Literal(tag),
                        hm.Tuple([]),
                    ],
                )
        if name in ("tket.bool.read", "tket.bool.make_opaque"):
            return hm.Apply(f"prelude.Noop@{_v('prelude')}", [BOOL_ADT])
        if name.startswith("tket.bool."):
            op = name.rsplit(".", 1)[1]
            if op not in _LOGIC:
                raise LoweringError(f"unknown tket.bool op {name}")
            return hm.Apply(f"logic.{_LOGIC[op]}@{_v('logic')}", [])
        if name in ("arithmetic.int.idivmod_u", "arithmetic.int.idivmod_s") and len(t.args) == 2:
            # hugr 0.14 declared idivmod_* over two width parameters; 0.18 over one. /repo passes
            # (N, N); keep the first (third-party API drift, not a /repo property).
            return hm.Apply(t.symbol, [_map_term(t.args[0])])
        return hm.Apply(t.symbol, [_map_term(a) for a in t.args])
    if isinstance(t, hm.List):
        return hm.List([_map_part(p) for p in t.parts])
    if isinstance(t, hm.Tuple):
        return hm.Tuple([_map_part(p) for p in t.parts])
    if isinstance(t, hm.Splice):
        return hm.Splice(_map_term(t.seq))
    if isinstance(t, hm.Func):
        return hm.Func(_map_region(t.region))
    if isinstance(t, (hm.Literal, hm.Var, hm.Wildcard)) or t is None:
        return t
    raise LoweringError(f"unhandled model term {type(t).__name__}")


def _map_part(p: Any) -> Any:
    if isinstance(p, hm.Splice):
        return hm.Splice(_map_term(p.seq))
    return _map_term(p)


def _map_symbol(s: hm.Symbol) -> hm.Symbol:
    return dataclasses.replace(
        s,
        params=[dataclasses.replace(p, type=_map_term(p.type)) for p in s.params],
        constraints=[_map_term(c) for c in s.constraints],
        signature=_map_term(s.signature),
    )


def _map_op(op: hm.Op) -> hm.Op:
    if isinstance(op, hm.CustomOp):
        return hm.CustomOp(_map_term(op.operation))
    if isinstance(op, (hm.DefineFunc, hm.DeclareFunc)):
        return type(op)(_map_symbol(op.symbol))
    if isinstance(op, (hm.Dfg, hm.Cfg, hm.Block, hm.TailLoop, hm.Conditional, hm.InvalidOp)):
        return op
    if isinstance(op, hm.Import):
        return op
    if isinstance(op, (hm.DeclareConstructor, hm.DeclareOperation, hm.DeclareAlias)):
        return type(op)(_map_symbol(op.symbol))
    if isinstance(op, hm.DefineAlias):
        return hm.DefineAlias(_map_symbol(op.symbol), _map_term(op.value))
    raise LoweringError(f"unhandled model op {type(op).__name__}")


class _Fresh:
    def __init__(self) -> None:
        self.n = 0

    def __call__(self) -> str:
        self.n += 1
        return f"vfm{self.n}"


def _is_measure_free(node: hm.Node) -> bool:
    op = node.operation
    return (
        isinstance(op, hm.CustomOp)
        and isinstance(op.operation, hm.Apply)
        and _sym(op.operation.symbol) == "tket.quantum.MeasureFree"
    )


def _map_node(node: hm.Node, fresh: _Fresh) -> list[hm.Node]:
    regions = [_map_region(r, fresh) for r in node.regions]
    if _is_measure_free(node):
        # qubit -> tket.bool   ==>   qubit -> Measurement ; Read: Measurement -> Bool
        if len(node.outputs) != 1 or len(node.inputs) != 1:
            raise LoweringError("MeasureFree with unexpected arity")
        meas_t = hm.Apply(f"tket.measurement.Measurement@{_v('tket.measurement')}", [])
        mid = fresh()
        qubit_t = hm.Apply("prelude.qubit", [])
        n1 = hm.Node(
            operation=node.operation,
            inputs=list(node.inputs),
            outputs=[mid],
            regions=[],
            meta=[_map_term(m) for m in node.meta],
            signature=hm.Apply("core.fn", [hm.List([qubit_t]), hm.List([meas_t])]),
        )
        n2 = hm.Node(
            operation=hm.CustomOp(
                hm.Apply(f"tket.measurement.Read@{_v('tket.measurement')}", [])
            ),
            inputs=[mid],
            outputs=list(node.outputs),
            regions=[],
            meta=[],
            signature=hm.Apply("core.fn", [hm.List([meas_t]), hm.List([BOOL_ADT])]),
        )
        return [n1, n2]
    return [
        hm.Node(
            operation=_map_op(node.operation),
            inputs=list(node.inputs),
            outputs=list(node.outputs),
            regions=regions,
            meta=[_map_term(m) for m in node.meta],
            signature=_map_term(node.signature),
        )
    ]


def _map_region(r: hm.Region, fresh: _Fresh | None = None) -> hm.Region:
    fresh = fresh or _Fresh()
    children: list[hm.Node] = []
    for c in r.children:
        children.extend(_map_node(c, fresh))
    return hm.Region(
        kind=r.kind,
        sources=list(r.sources),
        targets=list(r.targets),
        children=children,
        meta=[_map_term(m) for m in r.meta],
        signature=_map_term(r.signature),
    )


def lower_model(pkg: hm.Package) -> hm.Package:
    fresh = _Fresh()
    return hm.Package([hm.Module(_map_region(m.root, fresh)) for m in pkg.modules])


def pristine_extensions() -> list[Any]:
    """Installed (unpatched) extension definitions, loaded fresh from the package data."""
    import importlib

    from tket_exts.tket._util import load_extension

    names = [
        "tket.debug", "tket.futures", "tket.global_phase", "tket.guppy", "tket.modifier",
        "tket.qsystem", "tket.qsystem.random", "tket.qsystem.utils", "tket.quantum",
        "tket.result", "tket.rotation", "tket.wasm", "tket.measurement",
        "tket.qsystem.helios",
    ]
    exts = [load_extension(n) for n in names]
    he = importlib.import_module("guppylang_internals.compiler.hugr_extension")
    exts.append(he.EXTENSION)
    return exts


_PRISTINE_JSON: bytes | None = None


def _pristine_json() -> bytes:
    global _PRISTINE_JSON
    if _PRISTINE_JSON is None:
        _PRISTINE_JSON = json.dumps(
            [e._to_serial().model_dump(mode="json") for e in pristine_extensions()]
        ).encode("utf8")
    return _PRISTINE_JSON


def envelope_from_model(model_pkg: hm.Package, ext_json: bytes) -> bytes:
    from hugr.envelope import EnvelopeFormat

    cfg = EnvelopeConfig(format=EnvelopeFormat.MODEL_WITH_EXTS, zstd=None)
    return bytes(cfg._make_header().to_bytes()) + bytes(model_pkg) + ext_json


def split_envelope(raw: bytes) -> tuple[bytes, list[Any]]:
    """raw MODEL_WITH_EXTS envelope -> (model bytes incl. any suffix stripped, extension json list)."""
    import warnings

    from hugr._hugr import model as rust
    from hugr.envelope import EnvelopeFormat, EnvelopeHeader

    header = EnvelopeHeader.from_bytes(raw)
    payload = raw[10:]
    if header.zstd:
        payload = _zstd_decompress(payload)
    if header.format not in (EnvelopeFormat.MODEL_WITH_EXTS, EnvelopeFormat.MODEL):
        raise LoweringError(f"unsupported envelope format {header.format}")
    with warnings.catch_warnings():
        warnings.simplefilter("ignore")
        pkg, suffix = rust.bytes_to_package(payload)
    exts = json.loads(suffix.decode("utf8")) if suffix.strip() else []
    return pkg, exts


def with_adapter_extensions(raw: bytes) -> bytes:
    """Re-pack a raw envelope so that it carries the adapter's 0.12-era extension definitions
    (tket.bool, patched tket.quantum/qsystem, ...) when the producer packaged none (tests that
    validate a bare Hugr).  Extensions already present are kept as they are."""
    import importlib

    try:
        pkg, exts = split_envelope(raw)
        have = {e["name"] for e in exts}
        tk = importlib.import_module("guppylang_internals.std._internal.compiler.tket_exts")
        he = importlib.import_module("guppylang_internals.compiler.hugr_extension")
        eng = importlib.import_module("guppylang_internals.engine")
        for e in [*tk.TKET_EXTENSIONS, he.EXTENSION, *eng.ENGINE.additional_extensions]:
            if e.name not in have:
                exts.append(e._to_serial().model_dump(mode="json"))
                have.add(e.name)
        return envelope_from_model(pkg, json.dumps(exts).encode("utf8"))
    except LoweringError:
        raise
    except Exception as e:
        raise LoweringError(f"{type(e).__name__}: {e}") from e


def lower_bytes(raw: bytes) -> bytes:
    """raw envelope bytes (MODEL_WITH_EXTS, optionally zstd) -> lowered envelope bytes."""
    try:
        pkg, _ = split_envelope(raw)
        return envelope_from_model(lower_model(pkg), _pristine_json())
    except LoweringError:
        raise
    except Exception as e:
        raise LoweringError(f"{type(e).__name__}: {e}") from e


def _zstd_decompress(b: bytes) -> bytes:
    from hugr import envelope as he

    return he.zstd.decompress(b)


def lower_package(pkg: Any) -> bytes:
    """hugr.package.Package (compiler output) -> lowered envelope bytes for selene / V2."""
    try:
        lowered = lower_model(pkg.to_model())
        return envelope_from_model(lowered, _pristine_json())
    except LoweringError:
        raise
    except Exception as e:  # anything else inside lowering is a harness problem
        raise LoweringError(f"{type(e).__name__}: {e}") from e
