"""Execution substrate on top of adapter + lowering: validators V1/V2 and the real emulator."""
from __future__ import annotations

import contextlib
import os
from typing import Any

from vf.compat import lower


class HarnessError(Exception):
    """Something in the harness (adapter, lowering, emulator plumbing) failed — never a verdict."""


@contextlib.contextmanager
def _quiet_stdout():
    """hugr's CLI binding prints 'HUGR valid!' on fd 1; keep check output parseable."""
    import sys

    sys.stdout.flush()
    sys.stderr.flush()
    saved1, saved2 = os.dup(1), os.dup(2)
    devnull = os.open(os.devnull, os.O_WRONLY)
    try:
        os.dup2(devnull, 1)
        os.dup2(devnull, 2)
        yield
    finally:
        os.dup2(saved1, 1)
        os.dup2(saved2, 2)
        os.close(saved1)
        os.close(saved2)
        os.close(devnull)


def validate_raw(raw: bytes) -> str | None:
    """V1: hugr-py's bundled validator on raw compiler output (with the adapter's reconstructed
    0.12-era extension definitions, which the package carries). Returns error text or None."""
    import hugr.cli as cli

    try:
        with _quiet_stdout():
            cli.validate(raw)
    except cli.HugrCliError as e:
        return str(e)
    return None


def validate_lowered(low: bytes) -> str | None:
    """V2: both validators on the lowered package with pristine installed definitions."""
    import hugr.cli as cli
    import selene_hugr_qis_compiler as qc

    try:
        with _quiet_stdout():
            cli.validate(low)
    except cli.HugrCliError as e:
        return "hugr-cli: " + str(e)
    try:
        qc.check_hugr(low)
    except Exception as e:  # HugrReadError
        return "check_hugr: " + str(e)
    return None


def lower_any(src: Any) -> bytes:
    """Package | PackagePointer | Hugr | raw envelope bytes -> lowered envelope bytes."""
    import hugr.model as hm
    from hugr.hugr.base import Hugr
    from hugr.package import Package, PackagePointer

    if isinstance(src, PackagePointer):
        src = src.package
    if isinstance(src, Hugr):
        src = Package([src])
    if isinstance(src, Package):
        return lower.lower_package(src)
    if isinstance(src, (bytes, bytearray)):
        return lower.lower_bytes(bytes(src))
    raise HarnessError(f"cannot lower {type(src).__name__}")


def build_instance(low: bytes, **kw: Any) -> Any:
    import selene_sim

    return selene_sim.build(low, **kw)


def patch_for_selftest() -> None:
    """Route /repo's own tests (selftest) through lowering: selene_sim.build and check_hugr
    receive lowered packages. Used only by `vf selftest`, never by property checks."""
    import selene_hugr_qis_compiler as qc
    import selene_sim

    orig_build = selene_sim.build
    orig_check = qc.check_hugr

    def build(src, *a, **k):
        try:
            src = lower_any(src)
        except HarnessError:
            pass
        return orig_build(src, *a, **k)

    def check_hugr(b):
        # V1 on raw, V2 on lowered
        err = validate_raw(lower.with_adapter_extensions(b))
        if err:
            raise qc.HugrReadError("V1: " + err)
        return orig_check(lower_any(b))

    selene_sim.build = build
    qc.check_hugr = check_hugr
