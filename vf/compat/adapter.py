"""Dependency adapter: supplies the hugr-0.14 / tket-exts-0.12 symbols that /repo (guppylang
0.21.6) needs and the installed third-party versions dropped.  Harness side only; never edits
guppylang* logic.  See DESIGN.md section 1.2."""
from __future__ import annotations

import json
import os
import sys

# Registered checks always run /repo's working tree.  VF_REPO_ROOT points the same machinery at a
# scratch worktree (used only to try deliberately broken copies; never set by MANIFEST commands).
REPO_ROOT = os.environ.get("VF_REPO_ROOT", "/repo").rstrip("/")
REPO_PATHS = [f"{REPO_ROOT}/guppylang/src", f"{REPO_ROOT}/guppylang-internals/src"]

_BOOL_T = {"t": "Opaque", "extension": "tket.bool", "id": "bool", "args": [], "bound": "C"}
_SUM_BOOL = {"t": "Sum", "s": "Unit", "size": 2}


def _sig(inp, out):
    return {"params": [], "body": {"input": inp, "output": out}}


def _bool_extension_json() -> str:
    ops = {
        "read": _sig([_BOOL_T], [_SUM_BOOL]),
        "make_opaque": _sig([_SUM_BOOL], [_BOOL_T]),
        "not": _sig([_BOOL_T], [_BOOL_T]),
    }
    for n in ("and", "or", "xor", "eq"):
        ops[n] = _sig([_BOOL_T, _BOOL_T], [_BOOL_T])
    return json.dumps(
        {
            "version": "0.2.0",
            "name": "tket.bool",
            "types": {
                "bool": {
                    "extension": "tket.bool",
                    "name": "bool",
                    "params": [],
                    "description": "An opaque bool type",
                    "bound": {"b": "Explicit", "bound": "C"},
                }
            },
            "operations": {
                k: {
                    "extension": "tket.bool",
                    "name": k,
                    "description": f"tket.bool {k}",
                    "signature": v,
                    "binary": False,
                }
                for k, v in ops.items()
            },
        }
    )


_installed = False


def install() -> None:
    """Put /repo's sources first on sys.path and patch third-party gaps. Idempotent."""
    global _installed
    if _installed:
        return
    _installed = True
    for p in reversed(REPO_PATHS):
        if p in sys.path:
            sys.path.remove(p)
        sys.path.insert(0, p)

    import functools

    import hugr.ext as hext
    import tket_exts

    @functools.cache
    def _bool():
        return hext.Extension.from_json(_bool_extension_json())

    tket_exts.bool = _bool
    _patch_node_metadata()
    _patch_val_extension()
    _patch_quantum_measure_free()
    _patch_qsystem_measure()
    _patch_tk2circuit()


def _patch_node_metadata() -> None:
    """hugr 0.14 kept metadata on the Node handle; 0.18 keeps it in NodeData. /repo reads
    `hugr.module_root.metadata` and `mapping[entrypoint].metadata`."""
    import weakref

    from hugr.hugr import base as hbase
    from hugr.hugr.node_port import Node

    orig_add = hbase.Hugr._add_node

    def _add_node(self, *a, **k):
        node = orig_add(self, *a, **k)
        node.__dict__["_vf_owner"] = weakref.ref(self)
        return node

    hbase.Hugr._add_node = _add_node

    def _metadata(self):
        ref = self.__dict__.get("_vf_owner")
        owner = ref() if ref is not None else None
        if owner is None:
            raise AttributeError("metadata (adapter: node has no owning Hugr)")
        return owner[self].metadata

    Node.metadata = property(_metadata)


def _patch_val_extension() -> None:
    """hugr 0.14's `val.Extension` took an `extensions=[...]` kwarg; 0.18 dropped it."""
    import hugr.val as hv

    orig_init = hv.Extension.__init__

    def __init__(self, *a, extensions=None, **k):
        orig_init(self, *a, **k)

    hv.Extension.__init__ = __init__


def _patch_quantum_measure_free() -> None:
    """tket-exts 0.12 declared `tket.quantum.MeasureFree: qubit -> tket.bool`; 0.14 returns the new
    `tket.measurement.Measurement`.  /repo emits the 0.12 signature, so the definition packaged
    with raw compiler output (validator V1) must be the 0.12 one.  Lowering (lower.py) maps it back
    onto the pristine installed definition for execution."""
    import hugr.tys as ht
    import tket_exts

    q = tket_exts.quantum()
    op = q.get_op("MeasureFree")
    bool_t = ht.ExtType(tket_exts.bool().get_type("bool"))
    object.__setattr__(op.signature.poly_func.body, "output", [bool_t])


def _patch_qsystem_measure() -> None:
    """tket-exts 0.12's `tket.qsystem` had `Measure` and `MeasureReset`; `guppylang.std.qsystem`
    references them at import.  Re-add the op definitions so the module imports.  The installed QIS
    compiler has no lowering for them: programs using them are excluded from emulation."""
    import warnings

    import hugr.ext as hext
    import hugr.tys as ht
    import tket_exts

    with warnings.catch_warnings():
        warnings.simplefilter("ignore")
        qs = tket_exts.qsystem()
    bool_t = ht.ExtType(tket_exts.bool().get_type("bool"))
    if "Measure" not in qs.operations:
        qs.add_op_def(
            hext.OpDef(
                "Measure",
                hext.OpDefSig(ht.FunctionType([ht.Qubit], [bool_t])),
                description="Measure a qubit and lose it (tket-exts 0.12 compat)",
            )
        )
    if "MeasureReset" not in qs.operations:
        qs.add_op_def(
            hext.OpDef(
                "MeasureReset",
                hext.OpDefSig(ht.FunctionType([ht.Qubit], [ht.Qubit, bool_t])),
                description="Measure a qubit and reset it (tket-exts 0.12 compat)",
            )
        )


def _patch_tk2circuit() -> None:
    """tket 0.12 exposed `tket.circuit.Tk2Circuit(circ).to_bytes(cfg)`; 0.15 replaced it by
    `tket._state.CompilationState.from_tket1(circ).to_bytes(cfg)`."""
    import types

    try:
        import tket
        from tket._state import CompilationState
    except Exception:  # pytket integration is optional
        return
    if "tket.circuit" in sys.modules:
        return

    class Tk2Circuit:
        def __init__(self, circ):
            self._state = CompilationState.from_tket1(circ)

        def to_bytes(self, config=None):
            return self._state.to_bytes(config)

        def to_str(self, config=None):
            return self._state.to_str(config)

    mod = types.ModuleType("tket.circuit")
    mod.Tk2Circuit = Tk2Circuit
    sys.modules["tket.circuit"] = mod
    tket.circuit = mod


def boot() -> None:
    """install() + import /repo's guppylang + post-import registration. The one entry point."""
    install()
    import guppylang  # noqa: F401
    import tket_exts
    from guppylang_internals.engine import ENGINE

    assert_repo_sources()
    # installed tket.qsystem/quantum definitions mention tket.measurement.Measurement (public API)
    ENGINE.register_extension(tket_exts.measurement())
    # pytket circuits with native gates decode to tket.qsystem.helios ops in the installed tket
    ENGINE.register_extension(tket_exts.qsystem_helios())


def assert_repo_sources() -> None:
    import guppylang
    import guppylang_internals

    for m in (guppylang, guppylang_internals):
        f = m.__file__ or ""
        if not f.startswith(REPO_ROOT + "/"):
            raise SystemExit(f"BROKEN-HARNESS: {m.__name__} imported from {f}, not {REPO_ROOT}")
