"""Child process for C10: processes a batch of programs under one perturbation configuration
(PYTHONHASHSEED is set by the parent through the environment; the BB-hash salt and heap noise come
from the job file) and prints one outcome per program."""
from __future__ import annotations

import hashlib
import json
import random
import sys
from pathlib import Path

ROOT = Path(__file__).resolve().parent.parent
sys.path.insert(0, str(ROOT))


def main() -> int:
    job = json.loads(Path(sys.argv[1]).read_text())
    rng = random.Random(job["noise_seed"])
    # heap noise before anything from /repo is imported: shifts every later object address
    noise = [bytearray(rng.randint(1, 4096)) for _ in range(rng.randint(0, 3000))]
    del noise[:: 2]
    from vf import ctx as C

    ctx = C.Ctx(Path(job["workdir"]))
    from guppylang_internals.experimental import enable_experimental_features

    enable_experimental_features()
    salt = job["salt"]
    if salt is not None:
        # every class of /repo that hashes by identity (BB, CFG, definitions, ...) and every ast
        # node gets a salted identity hash: the iteration order of any set / dict of such objects
        # changes from configuration to configuration, as it would with a different heap layout
        import ast
        import importlib
        import inspect
        import pkgutil

        import guppylang
        import guppylang_internals

        def salted(self):
            return hash((salt, id(self) * 2654435761 % (1 << 61)))

        for pkg in (guppylang_internals, guppylang):
            for m in pkgutil.walk_packages(pkg.__path__, pkg.__name__ + "."):
                try:
                    mod = importlib.import_module(m.name)
                except Exception:
                    continue
                for c in list(vars(mod).values()):
                    if inspect.isclass(c) and c.__module__.startswith("guppylang") \
                            and c.__hash__ is object.__hash__ and not issubclass(c, BaseException):
                        try:
                            c.__hash__ = salted
                        except (TypeError, AttributeError):
                            pass
        try:
            ast.AST.__hash__ = salted
        except TypeError:
            pass
    outs = []
    for k, prog in enumerate(job["programs"]):
        # same file path in every configuration (paths end up in diagnostics)
        path = Path(job["workdir"]) / f"c10prog_{k}.py"
        path.write_text(prog["text"])
        import importlib.util

        name = f"c10prog_{k}"
        spec = importlib.util.spec_from_file_location(name, path)
        mod = importlib.util.module_from_spec(spec)
        sys.modules[name] = mod
        junk = [object() for _ in range(rng.randint(0, 500))]  # noise between definitions
        try:
            spec.loader.exec_module(mod)
            d = getattr(mod, prog["entry"])
            pkg = d.compile() if prog.get("entrypoint", True) else d.compile_function()
            outs.append(["ok", hashlib.sha256(pkg.to_bytes()).hexdigest()])
        except BaseException as e:
            if C.is_guppy_error(e) and hasattr(e, "error"):
                try:
                    outs.append(["err", ctx.render(e)])
                except BaseException as r:
                    outs.append(["render-crash", C.innermost_repo_frame(r)])
            elif C.is_guppy_error(e):
                outs.append(["err", str(e)])
            else:
                outs.append(["crash", C.innermost_repo_frame(e)])
        finally:
            sys.modules.pop(name, None)
            del junk
    print("C10RESULT " + json.dumps(outs))
    return 0


if __name__ == "__main__":
    sys.exit(main())
