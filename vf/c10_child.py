"""Child process for C10: processes a batch of programs under one perturbation configuration
(PYTHONHASHSEED is set by the parent through the environment; the BB-hash salt and heap noise come
from the job file) and prints one outcome per program."""
from __future__ import annotations

import hashlib
import json
import random
import sys
from pathlib import Path

ROOT = Path(__file__).resolve().parent.parent
sys.path.insert(0, str(ROOT))


def main() -> int:
    job = json.loads(Path(sys.argv[1]).read_text())
    rng = random.Random(job["noise_seed"])
    # heap noise before anything from /repo is imported: shifts every later object address
    noise = [bytearray(rng.randint(1, 4096)) for _ in range(rng.randint(0, 3000))]
    del noise[:: 2]
    from vf import ctx as C

    ctx = C.Ctx(Path(job["workdir"]))
    import guppylang_internals.cfg.bb as bbmod

    salt = job["salt"]
    if salt is not None:
        bbmod.BB.__hash__ = lambda self: hash((salt, id(self) * 2654435761 % (1 << 61)))
    outs = []
    for k, prog in enumerate(job["programs"]):
        # same file path in every configuration (paths end up in diagnostics)
        path = Path(job["workdir"]) / f"c10prog_{k}.py"
        path.write_text(prog["text"])
        import importlib.util

        name = f"c10prog_{k}"
        spec = importlib.util.spec_from_file_location(name, path)
        mod = importlib.util.module_from_spec(spec)
        sys.modules[name] = mod
        junk = [object() for _ in range(rng.randint(0, 500))]  # noise between definitions
        try:
            spec.loader.exec_module(mod)
            d = getattr(mod, prog["entry"])
            pkg = d.compile() if prog.get("entrypoint", True) else d.compile_function()
            outs.append(["ok", hashlib.sha256(pkg.to_bytes()).hexdigest()])
        except BaseException as e:
            if C.is_guppy_error(e) and hasattr(e, "error"):
                try:
                    outs.append(["err", ctx.render(e)])
                except BaseException as r:
                    outs.append(["render-crash", C.innermost_repo_frame(r)])
            elif C.is_guppy_error(e):
                outs.append(["err", str(e)])
            else:
                outs.append(["crash", C.innermost_repo_frame(e)])
        finally:
            sys.modules.pop(name, None)
            del junk
    print("C10RESULT " + json.dumps(outs))
    return 0


if __name__ == "__main__":
    sys.exit(main())
