"""Parent-side orchestration shared by all 33 checks: shard case indices over worker
subprocesses, watch them, aggregate records, classify against known findings, write evidence,
print verdict lines, choose the exit code.

Exit codes: 0 held on everything explored (possibly with KNOWN-FINDING lines);
            1 at least one unlisted violation (VIOLATION line printed);
            2 inconclusive / broken harness (no VIOLATION line) — never expected on the unchanged
              tree; it tells the caller the deciding monitor was not reached.
"""
from __future__ import annotations

import importlib
import json
import os
import shutil
import subprocess
import sys
import time
from collections import Counter
from pathlib import Path
from typing import Any

ROOT = Path(__file__).resolve().parent.parent
PY = "/venv/bin/python"
NPROC = int(os.environ.get("VERIF_WORKERS", "16"))


def prop_module(pid: str):
    return importlib.import_module(f"vf.props.{pid.lower()}")


def load_known() -> list[dict[str, Any]]:
    p = ROOT / "known_findings.json"
    if not p.exists():
        return []
    return json.loads(p.read_text())["findings"]


def ensure_deps() -> None:
    """icontract/deal live in git-ignored /verif/.deps; (re)install from the offline wheelhouse."""
    deps = ROOT / ".deps"
    if (deps / "icontract").is_dir():
        return
    subprocess.run(
        [PY, "-m", "pip", "install", "-q", "--no-index", "--find-links",
         "/opt/veriftools/wheels", "--target", str(deps), "icontract", "deal"],
        check=False, stdout=subprocess.DEVNULL, stderr=subprocess.DEVNULL,
    )


class Slot:
    def __init__(self, wid: int) -> None:
        self.wid = wid
        self.proc: subprocess.Popen | None = None
        self.indices: list[int] = []
        self.out: Path | None = None
        self.pos = 0  # bytes of `out` consumed
        self.inflight: int | None = None
        self.done_idx: set[int] = set()
        self.log: Path | None = None


def _kill_group(proc: subprocess.Popen) -> None:
    import signal

    try:
        os.killpg(proc.pid, signal.SIGKILL)
    except (ProcessLookupError, PermissionError):
        try:
            proc.kill()
        except ProcessLookupError:
            pass


def run_check(pid: str, tier: str, seed: int) -> int:
    t0 = time.time()
    ensure_deps()
    mod = prop_module(pid)
    plan = mod.plan(tier, seed)
    n_cases: int = plan["n_cases"]
    params: dict = plan.get("params", {})
    watchdog_s: float = plan.get("watchdog_s", 900 if tier == "quick" else 3600)
    workers = max(1, min(NPROC, plan.get("workers", NPROC), n_cases))

    run_dir = ROOT / ".work" / f"{pid}-{tier}-{seed}-{os.getpid()}"
    if run_dir.exists():
        shutil.rmtree(run_dir)
    run_dir.mkdir(parents=True)

    records: dict[int, dict] = {}
    worker_counters: Counter = Counter()
    worker_sets: dict[str, set] = {}
    harness_notes: list[str] = []

    # interleaved static sharding: worker w gets indices w, w+W, ...
    pending: list[list[int]] = [list(range(w, n_cases, workers)) for w in range(workers)]
    slots = [Slot(w) for w in range(workers)]
    gen = 0

    def start(slot: Slot, indices: list[int]) -> None:
        nonlocal gen
        gen += 1
        job = {
            "prop": pid, "tier": tier, "seed": seed, "indices": indices, "params": params,
            "workdir": str(run_dir / f"w{slot.wid}"),
        }
        jobfile = run_dir / f"job{slot.wid}_{gen}.json"
        slot.out = run_dir / f"out{slot.wid}_{gen}.jsonl"
        slot.log = run_dir / f"log{slot.wid}_{gen}.txt"
        slot.out.write_text("")
        job["out"] = str(slot.out)
        jobfile.write_text(json.dumps(job))
        env = dict(os.environ)
        env.setdefault("PYTHONHASHSEED", "0")
        env["CQCL_GUPPYLANG_VERIF"] = "1"
        env["PYTHONPATH"] = str(ROOT)
        env["PYTHONDONTWRITEBYTECODE"] = "1"
        slot.indices = indices
        slot.pos = 0
        slot.inflight = None
        slot.done_idx = set()
        slot.proc = subprocess.Popen(
            [PY, "-m", "vf.worker", str(jobfile)], env=env, cwd=str(ROOT),
            stdout=open(slot.log, "w"), stderr=subprocess.STDOUT,
            start_new_session=True,  # own process group: grandchildren (selene, C10 children) die with it
        )

    def drain(slot: Slot) -> None:
        assert slot.out is not None
        with open(slot.out, "rb") as f:
            f.seek(slot.pos)
            data = f.read()
        # only consume complete lines
        end = data.rfind(b"\n")
        if end < 0:
            return
        chunk = data[: end + 1]
        slot.pos += len(chunk)
        for line in chunk.splitlines():
            if not line.strip():
                continue
            ev = json.loads(line)
            if ev["ev"] == "start":
                slot.inflight = ev["idx"]
            elif ev["ev"] == "rec":
                records[ev["idx"]] = ev["rec"]
                slot.done_idx.add(ev["idx"])
                slot.inflight = None
            elif ev["ev"] == "done":
                worker_counters.update(ev.get("counters", {}))
                for k, v in ev.get("sets", {}).items():
                    worker_sets.setdefault(k, set()).update(v)
            elif ev["ev"] == "fatal":
                harness_notes.append(ev["msg"])

    for s, idxs in zip(slots, pending):
        start(s, idxs)

    watchdog_fired = False
    restarts = 0
    while True:
        alive = False
        for s in slots:
            if s.proc is None:
                continue
            drain(s)
            rc = s.proc.poll()
            if rc is None:
                alive = True
                continue
            drain(s)
            remaining = [i for i in s.indices if i not in s.done_idx]
            s.proc = None
            if not remaining:
                continue
            # worker died mid-batch: blame the in-flight case, restart with the rest
            crashed = s.inflight if s.inflight is not None else remaining[0]
            tail = ""
            try:
                tail = s.log.read_text()[-1500:] if s.log else ""
            except Exception:
                pass
            records[crashed] = {
                "status": "crash", "fp": None, "detail": f"worker exit {rc}", "log_tail": tail,
            }
            remaining = [i for i in remaining if i != crashed]
            restarts += 1
            if remaining and restarts < 200:
                start(s, remaining)
                alive = True
        if not alive:
            break
        if time.time() - t0 > watchdog_s:
            watchdog_fired = True
            for s in slots:
                if s.proc is not None:
                    _kill_group(s.proc)
                    s.proc.wait()
                    drain(s)
                    s.proc = None
            break
        time.sleep(0.05)

    if os.environ.get("VERIF_DEBUG"):
        Path(os.environ["VERIF_DEBUG"]).write_text(json.dumps(records, indent=1, default=str))
    rc = finish(pid, tier, seed, mod, plan, records, worker_counters, worker_sets,
                harness_notes, watchdog_fired, n_cases, time.time() - t0)
    shutil.rmtree(run_dir, ignore_errors=True)
    try:
        (ROOT / ".work").rmdir()
    except OSError:
        pass
    return rc


def finish(pid, tier, seed, mod, plan, records, wcounters, wsets, harness_notes,
           watchdog_fired, n_cases, wall) -> int:
    known = [k for k in load_known() if k["property"] == pid]
    known_active = {k["mechanism"]: k for k in known if k["status"] == "known"}

    status_count: Counter = Counter()
    fps: set[str] = set()
    counters: Counter = Counter(wcounters)
    sets: dict[str, set] = {k: set(v) for k, v in wsets.items()}
    samples: list[Any] = []
    violations: list[tuple[int, dict]] = []
    known_hits: Counter = Counter()
    harness_errors: list[tuple[int, dict]] = []

    for idx in sorted(records):
        r = records[idx]
        st = r["status"]
        status_count[st] += 1
        counters.update(r.get("counters", {}))
        for k, v in r.get("sets", {}).items():
            sets.setdefault(k, set()).update(v)
        if st in ("held", "violated"):
            if r.get("fp") is not None:
                fps.add(r["fp"])
            if r.get("sample") is not None and len(samples) < 3:
                samples.append(r["sample"])
        if st == "violated":
            # a record may carry several violations (batched observations)
            vs = r.get("violations") or [{"mech": r.get("mech", "?"), "witness": r.get("witness")}]
            for v in vs:
                if v["mech"] in known_active:
                    known_hits[v["mech"]] += 1
                else:
                    violations.append((idx, v))
        if st in ("harness_error", "crash"):
            harness_errors.append((idx, r))

    evaluations = status_count["held"] + status_count["violated"]
    floors: dict[str, int] = dict(getattr(mod, "FLOORS", {}))
    floors.update(plan.get("floors", {}))
    inconclusive: list[str] = []
    min_eval = floors.pop("evaluations", max(2, n_cases // 4))
    if evaluations < min_eval:
        inconclusive.append(f"evaluations {evaluations} < floor {min_eval}")
    if len(fps) < floors.pop("distinct", 2):
        inconclusive.append(f"distinct_nontrivial {len(fps)} below floor")
    for k, fl in floors.items():
        have = counters.get(k, len(sets.get(k, ())))
        if have < fl:
            inconclusive.append(f"monitor counter {k}={have} < floor {fl}")
    # too many harness errors => the harness, not the property, is what was observed
    max_he = plan.get("max_harness_errors", max(3, n_cases // 50))
    if len(harness_errors) > max_he:
        inconclusive.append(f"{len(harness_errors)} harness errors/crashes (> {max_he})")
    for note in harness_notes:
        inconclusive.append(f"worker fatal: {note[:300]}")
    if watchdog_fired and evaluations < min_eval:
        inconclusive.append("wall-clock watchdog fired")

    # replay files + stdout
    # scratch-worktree trials (VF_REPO_ROOT set) must not overwrite /repo's evidence / replays
    scratch = os.environ.get("VF_SCRATCH_OUT")
    rdir = (Path(scratch) if scratch else ROOT) / "replay" / pid
    out_lines: list[str] = []
    shown: Counter = Counter()
    nrep = 0
    if violations:
        rdir.mkdir(parents=True, exist_ok=True)
    for idx, v in violations:
        shown[v["mech"]] += 1
        if shown[v["mech"]] > 2 or nrep >= 12:
            continue
        nrep += 1
        path = rdir / f"{tier}-{seed}-{idx}-{nrep}.json"
        path.write_text(json.dumps(
            {"property": pid, "tier": tier, "seed": seed, "idx": idx, "mechanism": v["mech"],
             "witness": v.get("witness")}, indent=1, default=str))
        out_lines.append(f"VIOLATION property={pid} replay={path}")
        out_lines.append(f"  mechanism: {v['mech']}")
    for mech, n in sorted(known_hits.items()):
        out_lines.append(f"KNOWN-FINDING: property={pid} {mech} (observed {n}x) — "
                         f"{known_active[mech].get('what', '')}")
    for idx, r in harness_errors[:5]:
        out_lines.append(f"HARNESS-NOTE case={idx} {r['status']}: {str(r.get('detail'))[:300]}")

    coverage: dict[str, Any] = {
        "evaluations": evaluations,
        "distinct_nontrivial": len(fps),
        "rule": getattr(mod, "RULE", ""),
        "samples": samples or ["<no sample recorded>"],
        "cases_planned": n_cases,
        "status_counts": dict(status_count),
        "monitor_counters": dict(counters),
        "distinct_sets": {k: len(v) for k, v in sets.items()},
        "set_examples": {k: sorted(v)[:8] for k, v in sets.items()},
        "known_findings_observed": dict(known_hits),
        "unlisted_violation_mechanisms": dict(Counter(v["mech"] for _, v in violations)),
        "watchdog_fired": watchdog_fired,
        "inconclusive_reasons": inconclusive,
    }
    if plan.get("exhaustive"):
        coverage["exhaustive"] = not watchdog_fired and status_count["crash"] == 0
    if hasattr(mod, "extra_coverage"):
        coverage.update(mod.extra_coverage(counters, sets))
    evidence = {
        "property_id": pid,
        "tier": tier,
        "seed": seed,
        "level": getattr(mod, "LEVEL", "exploration"),
        "coverage": coverage,
        "assumptions": list(getattr(mod, "ASSUMPTIONS", [])) + COMMON_ASSUMPTIONS,
        "wall_s": round(wall, 2),
        "violations": len(violations),
    }
    edir = (Path(scratch) if scratch else ROOT) / "evidence"
    edir.mkdir(parents=True, exist_ok=True)
    (edir / f"{pid}.json").write_text(json.dumps(evidence, indent=1, default=str) + "\n")

    for line in out_lines:
        print(line)
    verdict = "VIOLATED" if violations else ("INCONCLUSIVE" if inconclusive else "HELD")
    print(f"{verdict} property={pid} tier={tier} seed={seed} evaluations={evaluations} "
          f"distinct={len(fps)} statuses={dict(status_count)} wall={wall:.1f}s")
    if counters:
        print("  monitors: " + ", ".join(f"{k}={v}" for k, v in sorted(counters.items())))
    if sets:
        print("  distinct: " + ", ".join(f"{k}={len(v)}" for k, v in sorted(sets.items())))
    if violations:
        return 1
    if inconclusive:
        for r in inconclusive:
            print(f"INCONCLUSIVE property={pid} reason={r}")
        return 2
    return 0


COMMON_ASSUMPTIONS = [
    "/repo sources (guppylang 0.21.6) run against hugr 0.18.6 / tket-exts 0.14.2 / selene 0.3.2 "
    "through the harness-side adapter (vf/compat/adapter.py); its calibration is `./check selftest`",
    "emulator semantics are those of the installed selene-sim 0.3.2 + QIS compiler 0.4.3 after "
    "tket.bool lowering (vf/compat/lower.py)",
    "verdict = held on the executions observed in this run; nothing is claimed about inputs "
    "outside the generator classes stated in coverage.rule",
]


def run_replay(pid: str, path: str) -> int:
    mod = prop_module(pid)
    data = json.loads(Path(path).read_text())
    env = dict(os.environ)
    env.setdefault("PYTHONHASHSEED", "0")
    env["PYTHONPATH"] = str(ROOT)
    env["CQCL_GUPPYLANG_VERIF"] = "1"
    p = subprocess.run([PY, "-m", "vf.worker", "--replay", path], env=env, cwd=str(ROOT))
    return p.returncode
