#!/bin/sh
# tools/sweep.sh <tier> <seed> [ids...]  — run checks sequentially, one summary line each (for `vp run`)
tier=$1; seed=$2; shift 2
ids="$@"; [ -z "$ids" ] && ids="C01 C02 C03 C04 C05 C06 C07 C08 C09 C10 C11 C12 C13 C14 C15 C16 C17 C18 C19 C20 C21 C22 C23 C24 C25 C26 C27 C28 C29 C30 C31 C32 C33"
mkdir -p sweeplogs
for id in $ids; do
  s=$(date +%s)
  ./check $id --tier $tier --seed $seed > sweeplogs/$id-$tier-$seed.log 2>&1; rc=$?
  e=$(date +%s)
  echo "$id tier=$tier seed=$seed rc=$rc t=$((e-s))s $(grep -E '^(HELD|VIOLATED|INCONCLUSIVE) ' sweeplogs/$id-$tier-$seed.log | head -1 | cut -c1-160)"
  grep -E "^(VIOLATION|  mechanism|INCONCLUSIVE property|HARNESS-NOTE)" sweeplogs/$id-$tier-$seed.log | head -8
done
echo SWEEP-DONE
