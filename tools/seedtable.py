#!/usr/bin/env python3
"""tools/seedtable.py <results.jsonl> [more.jsonl ...]: fold tools/seedeval.py RESULT lines (last one per seed+check wins)
into seeded/<name>/meta.json ("detected_by", "what_was_run") and seeded/RESULTS.md."""
import json, re, sys
from pathlib import Path

ROOT = Path(__file__).resolve().parent.parent
res = {}
lines = []
for f_ in sys.argv[1:]:
    lines += Path(f_).read_text().splitlines()
for line in lines:
    line = line.strip()
    if not line:
        continue
    r = json.loads(line)
    d = res.setdefault(r["name"], {"checks": {}, "demo": {}})
    for k in ("demo_clean_rc", "demo_patched_rc"):
        if k in r:
            d["demo"][k] = r[k]
    for c, v in r["checks"].items():
        d["checks"][c] = {"tier": r["tier"], "seed": r["seed"], **v}
rows = []
for sd in sorted((ROOT / "seeded").iterdir()):
    if not (sd / "meta.json").exists():
        continue
    meta = json.loads((sd / "meta.json").read_text())
    notes = (sd / "notes.md").read_text() if (sd / "notes.md").exists() else ""
    if not meta.get("needs_to_manifest"):
        need = [l.strip(" -*") for l in notes.splitlines()
                if re.search(r"need|manifest|trigger|only when|requires", l, re.I) and len(l.strip()) > 25]
        meta["needs_to_manifest"] = " ".join(need[:3])[:600]
    diff = (sd / "patch.diff").read_text()
    meta["files_changed"] = sorted(set(re.findall(r"^\+\+\+ b/(.*)$", diff, re.M)))
    r = res.get(sd.name)
    if r:
        meta["demo"] = {"on_unchanged_tree_rc": r["demo"].get("demo_clean_rc"),
                        "with_patch_rc": r["demo"].get("demo_patched_rc")}
        meta["detected_by"] = {c: {"verdict": v["verdict"], "tier": v["tier"], "seed": v["seed"],
                                   "mechanisms": v.get("mechanisms", [])[:3]} for c, v in r["checks"].items()}
        meta["what_was_run"] = [
            f"tools/seedeval.py seeded/{sd.name} (scratch worktree of /repo HEAD + patch.diff; demo.py on clean "
            f"and patched tree; ./check <ID> --tier quick with VF_REPO_ROOT=<worktree>)"]
    (sd / "meta.json").write_text(json.dumps(meta, indent=1) + "\n")
    det = [c for c, v in meta.get("detected_by", {}).items() if v["verdict"] == "DETECTED"]
    mis = [c for c, v in meta.get("detected_by", {}).items() if v["verdict"] != "DETECTED"]
    rows.append((sd.name, meta["property"], ", ".join(Path(f).name for f in meta["files_changed"]),
                 ", ".join(det) or "-", ", ".join(mis) or "-"))
out = ["# Seeded changes and the checks that catch them (quick tier, seed 0)", "",
       "| seed | property | files | detected by | not detected by |", "|---|---|---|---|---|"]
out += [f"| {a} | {b} | {c} | {d} | {e} |" for a, b, c, d, e in rows]
(ROOT / "seeded" / "RESULTS.md").write_text("\n".join(out) + "\n")
print(f"{len(rows)} seeds; undetected by any check:", [r[0] for r in rows if r[3] == "-"])
