#!/usr/bin/env python3
"""Try the registered checks against a deliberately broken copy of /repo.

    tools/seedeval.py seeded/<name> [--tier quick|thorough] [--checks C05,C03] [--seed N] [--no-demo]

For one seeded change (seeded/<name>/patch.diff, demo.py, meta.json) this
  1. makes a scratch worktree of /repo's HEAD under /tmp/vf-seedeval/, applies the patch there
     (/repo itself is never modified, so background runs against /repo are not disturbed);
  2. runs demo.py against the clean tree (/repo; must exit 0) and the patched worktree (must exit 1);
  3. runs `./check <ID>` for the property the change breaks (meta.json "property", plus --checks)
     with VF_REPO_ROOT pointing at the worktree and evidence/replays redirected to .work/seedeval/;
  4. prints one line per check: DETECTED (exit 1 + VIOLATION line) / MISSED (exit 0) / INCONCLUSIVE
     and removes the worktree.
"""
from __future__ import annotations

import argparse
import json
import os
import shutil
import subprocess
import sys
import time
from pathlib import Path

ROOT = Path(__file__).resolve().parent.parent
PY = "/venv/bin/python"


def sh(cmd, **kw):
    return subprocess.run(cmd, text=True, capture_output=True, **kw)


def main() -> int:
    ap = argparse.ArgumentParser()
    ap.add_argument("dir")
    ap.add_argument("--tier", default="quick")
    ap.add_argument("--checks", default="")
    ap.add_argument("--seed", type=int, default=0)
    ap.add_argument("--no-demo", action="store_true")
    ap.add_argument("--keep", action="store_true")
    ap.add_argument("--demo-only", action="store_true")
    a = ap.parse_args()
    d = Path(a.dir).resolve()
    meta = json.loads((d / "meta.json").read_text())
    checks = [meta["property"]] + [c for c in a.checks.split(",") if c and c != meta["property"]]
    wt = Path("/tmp/vf-seedeval") / f"{d.name}-{os.getpid()}"
    wt.parent.mkdir(parents=True, exist_ok=True)
    r = sh(["git", "-C", "/repo", "worktree", "add", "--detach", str(wt), "HEAD"])
    if r.returncode:
        print("worktree add failed:", r.stderr)
        return 2
    out: dict = {"name": d.name, "tier": a.tier, "seed": a.seed, "checks": {}}
    try:
        r = sh(["git", "-C", str(wt), "apply", str(d / "patch.diff")])
        if r.returncode and meta.get("base"):
            # the change was written against an earlier /repo commit and conflicts with a later fix:
            # try it on that commit instead (the checks run against whatever tree VF_REPO_ROOT names)
            sh(["git", "-C", str(wt), "checkout", "-q", "--detach", meta["base"]])
            r = sh(["git", "-C", str(wt), "apply", str(d / "patch.diff")])
            out["applied_on"] = meta["base"]
            print(f"patch applied on base {meta['base']} (conflicts with /repo HEAD)")
        if r.returncode:
            print("patch does not apply:", r.stderr)
            return 2
        env = dict(os.environ, PYTHONPATH=f"{ROOT}/seeded/_tool:{ROOT}", PYTHONDONTWRITEBYTECODE="1",
                   TMPDIR=str(ROOT / ".work" / "seedeval-tmp"))
        (ROOT / ".work" / "seedeval-tmp").mkdir(parents=True, exist_ok=True)
        if not a.no_demo and (d / "demo.py").exists():
            for label, root, want in (("clean", "/repo", 0), ("patched", str(wt), 1)):
                e = dict(env, VF_REPO_ROOT=root, GUPPY_ROOT=root)
                try:
                    r = sh([PY, str(d / "demo.py")], env=e, cwd=str(d), timeout=900)
                    rc = r.returncode
                except subprocess.TimeoutExpired:
                    rc = -9
                out[f"demo_{label}_rc"] = rc
                print(f"demo[{label}] rc={rc} (want {want})")
        for pid in ([] if a.demo_only else checks):
            scratch = ROOT / ".work" / "seedeval" / d.name
            e = dict(os.environ, VF_REPO_ROOT=str(wt), VF_SCRATCH_OUT=str(scratch))
            t0 = time.time()
            r = sh([str(ROOT / "check"), pid, "--tier", a.tier, "--seed", str(a.seed)], env=e)
            viol = [l for l in r.stdout.splitlines() if l.startswith("VIOLATION")]
            mechs = [l.strip() for l in r.stdout.splitlines() if l.strip().startswith("mechanism:")]
            verdict = ("DETECTED" if r.returncode == 1 and viol else
                       "MISSED" if r.returncode == 0 else f"INCONCLUSIVE(rc={r.returncode})")
            out["checks"][pid] = {"verdict": verdict, "wall_s": round(time.time() - t0, 1),
                                  "mechanisms": sorted(set(mechs))[:6]}
            print(f"{verdict} seeded={d.name} check={pid} tier={a.tier} seed={a.seed} "
                  f"wall={time.time()-t0:.0f}s {sorted(set(mechs))[:3]}")
            if verdict != "DETECTED":
                tail = [l for l in r.stdout.splitlines() if l.startswith(("HELD", "INCONCLUSIVE", "HARNESS"))]
                print("   ", " | ".join(tail)[:400])
            shutil.rmtree(scratch, ignore_errors=True)
    finally:
        if not a.keep:
            sh(["git", "-C", "/repo", "worktree", "remove", "--force", str(wt)])
            shutil.rmtree(wt, ignore_errors=True)
            sh(["git", "-C", "/repo", "worktree", "prune"])
    print("RESULT " + json.dumps(out))
    return 0


if __name__ == "__main__":
    sys.exit(main())
