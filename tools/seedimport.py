#!/usr/bin/env python3
"""tools/seedimport.py <PID> <k>: copy a sub-agent's deliverable /tmp/wt/<PID>-out/{patch,demo,notes}<k>.* into
seeded/<PID>-<k>/ with a meta.json skeleton (to be completed after tools/seedeval.py confirmed it)."""
import json, shutil, sys
from pathlib import Path
pid, k = sys.argv[1], sys.argv[2]
src = Path(f"/tmp/wt/{pid}-out")
dst = Path(__file__).resolve().parent.parent / "seeded" / f"{pid}-{k}"
dst.mkdir(parents=True, exist_ok=True)
shutil.copy(src / f"patch{k}.diff", dst / "patch.diff")
shutil.copy(src / f"demo{k}.py", dst / "demo.py")
notes = (src / f"notes{k}.md").read_text() if (src / f"notes{k}.md").exists() else ""
(dst / "notes.md").write_text(notes)
meta = {"property": pid, "origin": "independent sub-agent given only the property text and a scratch worktree",
        "needs_to_manifest": "", "what_was_run": [], "detected_by": {}}
if not (dst / "meta.json").exists():
    (dst / "meta.json").write_text(json.dumps(meta, indent=1) + "\n")
print(dst)
